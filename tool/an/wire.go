package an

import (
	"fmt"
	"go/token"
	"go/types"
	"sort"
	"strings"

	"golang.org/x/tools/go/ssa"
)

// E8 WIRE: handshake image, stream framing, websocket/inproc payload composition.

// handshakeImage derives the 8-byte SP header image symbolically from the connHeader
// struct type, the composite literal in handshake() and the byte order of binary.Write.
func handshakeImage(p *Prog, r *Report, R string) {
	q := NewQ(p, r)
	tp := p.ByRel["transport"]
	if tp == nil {
		r.Bad(R, "connHeader", "-", "ANCHOR-MISSING: package transport")
		return
	}
	obj := tp.Types.Scope().Lookup("connHeader")
	if obj == nil {
		r.Bad(R, "connHeader", "-", "ANCHOR-MISSING: type connHeader")
		return
	}
	st, ok := obj.Type().Underlying().(*types.Struct)
	if !ok {
		r.Bad(R, "connHeader", "-", "connHeader is not a struct")
		return
	}
	type fld struct {
		name string
		off  int
		size int
	}
	var flds []fld
	off := 0
	okLayout := true
	for i := 0; i < st.NumFields(); i++ {
		f := st.Field(i)
		b, isB := f.Type().Underlying().(*types.Basic)
		sz := 0
		if isB {
			switch b.Kind() {
			case types.Uint8, types.Int8:
				sz = 1
			case types.Uint16, types.Int16:
				sz = 2
			case types.Uint32, types.Int32:
				sz = 4
			case types.Uint64, types.Int64:
				sz = 8
			}
		}
		if sz == 0 {
			okLayout = false
		}
		flds = append(flds, fld{f.Name(), off, sz})
		off += sz
	}
	want := []fld{{"Zero", 0, 1}, {"S", 1, 1}, {"P", 2, 1}, {"Version", 3, 1}, {"Proto", 4, 2}, {"Reserved", 6, 2}}
	same := okLayout && len(flds) == len(want) && off == 8
	if same {
		for i := range want {
			if flds[i] != want[i] {
				same = false
			}
		}
	}
	r.Check(same, R, "connHeader/layout", p.Pos(obj.Pos()), "fixed-size fields at offsets 0,1,2,3,4(2),6(2); 8 bytes",
		fmt.Sprintf("the wire struct no longer serialises to the SP header layout 00 'S' 'P' 00 <proto:2> 00 00 (fields %v, size %d)", flds, off))
	hs := q.Fn(R, "transport", "conn", "handshake")
	if !hs.OK() {
		return
	}
	H := headerLocal(hs.fn)
	if H == "" {
		r.Bad(R, "handshake/header-local", hs.Pos(), "ANCHOR-MISSING: no local of type connHeader in handshake")
		return
	}
	consts := map[string]string{}
	for _, e := range hs.Ev("store", H+".*") {
		consts[strings.TrimPrefix(e.What, H+".")] = e.Args[0]
	}
	r.Check(consts["S"] == "83" && consts["P"] == "80" && consts["Proto"] == "recv.proto.Self" && len(consts) == 3, R, "handshake/literal", hs.Pos(),
		"header literal: S='S', P='P', Proto=own protocol number, other fields zero", fmt.Sprintf("the header sent is not {0,'S','P',0,Self,0}: stores %v", consts))
	wr := hs.Ev("call", "binary.Write")
	rd := hs.Ev("call", "binary.Read")
	r.Check(len(wr) == 1 && wr[0].Args[0] == "recv.c" && wr[0].Args[1] == "encoding/binary.BigEndian" && wr[0].Args[2] == H, R, "handshake/write-big-endian", wr.Pos(p), "header written big-endian", "the header is not written with binary.BigEndian: "+argsOf(wr))
	r.Check(len(rd) == 1 && strings.HasPrefix(rd[0].Args[0], "recv.") && rd[0].Args[1] == "encoding/binary.BigEndian" && rd[0].Args[2] == H, R, "handshake/read-big-endian", rd.Pos(p), "peer header read big-endian into the same struct", "the peer header is not read with binary.BigEndian into the header struct: "+argsOf(rd))
	r.Check(len(wr) == 1 && len(rd) == 1 && rd.DominatedBy(wr), R, "handshake/send-then-receive", rd.Pos(p), "own header is sent before waiting for the peer's", "handshake waits for the peer before sending its own header (two such peers deadlock)")
}

// handshakeValidation: success iff every header field has its required value; failures
// return a non-nil error after closing the connection; handshake never reports ErrClosed
// (which the accept loop takes as "listener closed").
func handshakeValidation(p *Prog, r *Report, R string) {
	q := NewQ(p, r)
	hs := q.Fn(R, "transport", "conn", "handshake")
	if !hs.OK() {
		return
	}
	var succ Sel
	for _, e := range hs.Ev("return", "") {
		if len(e.Args) == 1 && e.Args[0] == "nil" {
			succ = append(succ, e)
		}
	}
	if len(succ) != 1 {
		r.Bad(R, "handshake/success-exit", hs.Pos(), "ANCHOR-MISSING: expected exactly one `return nil`")
	} else {
		H := headerLocal(hs.fn)
		dom := map[string][]int64{H + ".Zero": {0, 1}, H + ".S": {83, 84}, H + ".P": {80, 81}, H + ".Version": {0, 1}, H + ".Reserved": {0, 1}, H + ".Proto": {1, 2}, "recv.proto.Peer": {1, 2}}
		res := ComparePred(predBlock(succ[0]), dom, []string{"binary.Write(recv.c,encoding/binary.BigEndian," + H + ") == nil", "binary.Read(" + hsReader(hs.Ev("call", "binary.Read")) + ",encoding/binary.BigEndian," + H + ") == nil"}, func(env map[string]int64) bool {
			return env[H+".Zero"] == 0 && env[H+".S"] == 83 && env[H+".P"] == 80 && env[H+".Version"] == 0 && env[H+".Reserved"] == 0 && env[H+".Proto"] == env["recv.proto.Peer"]
		})
		switch {
		case res.Undec != "":
			r.Unk(R, "handshake/accepts-iff-valid", p.InstrPos(succ[0].In), "cannot evaluate the acceptance predicate: "+res.Undec)
		case !res.OK:
			r.Bad(R, "handshake/accepts-iff-valid", p.InstrPos(succ[0].In), "the handshake accepts a header it must reject (or rejects a valid one): "+res.Counter)
		default:
			r.OK(R, "handshake/accepts-iff-valid", p.InstrPos(succ[0].In), fmt.Sprintf("success iff Zero=0,S='S',P='P',Version=0,Reserved=0,Proto=Peer on all %d assignments", res.Combos))
		}
	}
	closes := hs.Ev("call", "Conn.Close")
	rdc := hs.Ev("call", "binary.Read")
	nbad := 0
	for _, e := range hs.Ev("return", "") {
		if len(e.Args) != 1 || e.Args[0] == "nil" {
			continue
		}
		if len(rdc) == 1 && !InstrDominates(rdc[0].In, e.In) {
			continue // write failure: nothing read yet
		}
		okc := false
		for _, c := range closes {
			if c.In.Block() == e.In.Block() {
				okc = true
			}
		}
		if !okc {
			nbad++
		}
		r.Check(e.Args[0] != "ErrClosed", R, "handshake/never-ErrClosed@"+e.Args[0], p.InstrPos(e.In), "a failed handshake is not reported as ErrClosed", "handshake reports a peer's bad/short header as ErrClosed: the accept loop (and the dialer) take ErrClosed as 'endpoint closed' and stop for good — one broken peer kills the listener")
	}
	r.Check(nbad == 0, R, "handshake/failure-closes-conn", hs.Pos(), "every failing exit closes the connection", fmt.Sprintf("%d failing exit(s) of handshake do not close the connection", nbad))
	// a propagated I/O error must not be rewritten to ErrClosed
	nClosedConst := 0
	for _, fn := range WithClosures(hs.fn) {
		for _, e := range p.Events(fn) {
			for _, a := range e.Args {
				if a == "ErrClosed" {
					nClosedConst++
				}
			}
		}
	}
	r.Check(nClosedConst == 0, R, "handshake/no-ErrClosed-constant", hs.Pos(), "ErrClosed is not produced in handshake", "handshake produces ErrClosed")
	q.OnlyIn(R, "callers-of-handshake", p.CallersOf("connHandshakerPipe.handshake"), []string{"transport.(*connHandshaker).worker"}, []string{"transport.(*connHandshaker).worker"})
	// Wait: ErrClosed only when the handshaker is closed
	wt := q.Fn(R, "transport", "connHandshaker", "Wait")
	if wt.OK() {
		for _, e := range wt.Ev("return", "") {
			if len(e.Args) == 2 && e.Args[1] == "ErrClosed" {
				r.Check(hasAtom(e.Guard, "recv.closed"), R, "Wait/ErrClosed-iff-closed", p.InstrPos(e.In), "Wait returns ErrClosed only when the handshaker was closed", "Wait can return ErrClosed although the handshaker is open")
			}
		}
	}
}

// handshakerRules (C10/C16): the worker closes the connection of a failed handshake and
// of one that completes after Close; Close closes everything pending; handshakes run
// only on their own goroutine.
func handshakerRules(p *Prog, r *Report, R string) {
	q := NewQ(p, r)
	wk := q.Fn(R, "transport", "connHandshaker", "worker")
	if wk.OK() {
		var onErr, onClosed Sel
		for _, e := range wk.Ev("call", "connHandshakerPipe.Close") {
			if hasAtom(e.Guard, "$complit.e != nil") {
				onErr = append(onErr, e)
			}
			if hasAtom(e.Guard, "recv.closed") && hasAtom(e.Guard, "$complit.e == nil") {
				onClosed = append(onClosed, e)
			}
		}
		r.Check(len(onErr) == 1, R, "worker/closes-failed-handshake", onErr.Pos(p), "a failed handshake's connection is closed", "worker does not close the connection of a failed handshake")
		r.Check(len(onClosed) == 1 && onClosed.AllHeld("transport.connHandshaker.Mutex"), R, "worker/closes-late-success", onClosed.Pos(p), "a handshake that completes after Close is closed, not queued as usable", "a handshake that completes after the handshaker was closed leaves a live connection in the done queue that nobody will ever accept or close")
		ec := wk.Ev("store", "$complit.e").Arg(0, "ErrClosed")
		r.Check(len(ec) == 1 && ec.AllGuarded("recv.closed"), R, "worker/late-success-is-error", ec.Pos(p), "reported as ErrClosed", "late success not reported as ErrClosed")
		del := wk.Ev("delete", "delete").Arg(0, "recv.workq")
		r.Check(len(del) == 1 && del[0].Unconditional() && del.AllHeld("transport.connHandshaker.Mutex"), R, "worker/leaves-workq", del.Pos(p), "removed from the work set under the lock", "worker does not remove itself from workq")
		bc := wk.Ev("call", "sync.(*Cond).Broadcast")
		hsCall := wk.Ev("call", "connHandshakerPipe.handshake")
		okW, whyW := false, "no handshake call"
		if len(hsCall) == 1 && len(bc) >= 1 {
			okW, whyW = q.FollowedBy(hsCall, bc)
		}
		r.Check(len(bc) >= 1 && okW, R, "worker/wakes-waiters", bc.Pos(p), "Broadcast on every path", "worker does not wake Wait on every path: "+whyW)
		// every outcome is queued: a dialer's Dial is `Start; Wait`, and the result the worker
		// drops is the only one that Wait is waiting for
		var dq Sel
		for _, e := range wk.All() {
			if e.Kind == "store" && strings.HasSuffix(e.What, ".doneq") && strings.HasPrefix(e.Args[0], "append(") {
				dq = append(dq, e)
			}
		}
		okQ, whyQ := false, "no append to doneq"
		if len(hsCall) == 1 && len(dq) >= 1 {
			okQ, whyQ = q.FollowedBy(hsCall, dq)
		}
		r.Check(okQ, R, "worker/reports-every-outcome", dq.Pos(p), "the outcome of every handshake is appended to the done queue", "a handshake can end without its outcome being queued ("+whyQ+"): the Dial (Start; Wait) that is waiting for exactly this outcome never returns, so the dialer never retries")
	}
	cl := q.Fn(R, "transport", "connHandshaker", "Close")
	if cl.OK() {
		st := cl.Ev("store", "recv.closed").Arg(0, "true")
		bc := cl.Ev("call", "sync.(*Cond).Broadcast")
		cw := cl.Ev("call", "connHandshakerPipe.Close")
		nwork, ndone := 0, 0
		for _, e := range cw {
			if strings.Contains(e.Args[0], "recv.workq") {
				nwork++
			}
			if strings.Contains(e.Args[0], "recv.doneq") {
				ndone++
			}
		}
		r.Check(len(st) == 1 && st[0].Unconditional() && len(bc) == 1, R, "Close/marks-and-wakes", st.Pos(p), "closed=true and Broadcast", "handshaker Close does not set closed and wake waiters")
		r.Check(nwork == 1 && ndone == 1, R, "Close/closes-pending", cw.Pos(p), "closes every connection still handshaking and every finished one not yet accepted", "handshaker Close leaves pending connections open")
	}
	st := q.Fn(R, "transport", "connHandshaker", "Start")
	if st.OK() {
		g := st.Ev("go", "transport.(*connHandshaker).worker")
		mu := st.Ev("mapupdate", "recv.workq")
		r.Check(len(g) == 1 && len(mu) == 1 && g.DominatedBy(mu), R, "Start/async", g.Pos(p), "registered, then handshaken on its own goroutine", "Start does not hand the connection to its own worker goroutine (a slow peer would stall the accept loop)")
		// no synchronous handshake from Start
		r.Check(len(st.Ev("call", "connHandshakerPipe.handshake")) == 0, R, "Start/no-sync-handshake", st.Pos(), "no handshake on the caller's goroutine", "Start performs the handshake synchronously")
	}
}

// framingRules: SP stream framing of conn / connipc (C01.3, C15.4).
func framingRules(p *Prog, r *Report, R string) {
	q := NewQ(p, r)
	lenExpr := "uint64((len(arg1.Header) + len(arg1.Body)))"
	for _, t := range []string{"conn", "connipc"} {
		f := q.Fn(R, "transport", t, "Send")
		if !f.OK() {
			continue
		}
		ipc := t == "connipc"
		put := f.Ev("call", "binary.(bigEndian).PutUint64")
		okLen := len(put) == 1 && put[0].Args[0] == "encoding/binary.BigEndian" && put[0].Args[2] == lenExpr
		r.Check(okLen, R, f.Name+"/length-prefix", put.Pos(p), "8-byte big-endian prefix = len(Header)+len(Body)", "the length prefix is not BigEndian uint64(len(Header)+len(Body)): "+argsOf(put))
		if len(put) != 1 {
			continue
		}
		prefix := put[0].Args[1]
		if ipc {
			// prefix buffer of 9 bytes: [0] = 1, length at [1:]
			// (whatever the buffer is — a made slice, a local array — byte 0 of the buffer the
			// length goes into at offset 1)
			one := f.Ev("store", strings.TrimSuffix(prefix, "[1:]")+"[0]").Arg(0, "1")
			if len(one) == 0 {
				one = f.Ev("store", "~[:9][0]").Arg(0, "1")
			}
			if p.Conf.GOOS == "windows" {
				one = f.Ev("store", "~[0]").Arg(0, "1")
			}
			r.Check(len(one) == 1 && strings.HasSuffix(prefix, "[1:]"), R, f.Name+"/ipc-type-byte", one.Pos(p), "leading 0x01 then the length at offset 1", "the IPC frame does not start with the byte 0x01 followed by the length")
		} else {
			r.Check(strings.HasSuffix(prefix, "[:8]"), R, f.Name+"/prefix-size", put.Pos(p), "prefix is 8 bytes", "the TCP length prefix buffer is not 8 bytes")
		}
		if p.Conf.GOOS == "windows" && ipc {
			// one contiguous buffer: append(Header) then append(Body), then Write
			ap := f.Ev("call", "append")
			okOrder := len(ap) == 2 && strings.HasSuffix(ap[0].Args[1], "arg1.Header") && strings.HasSuffix(ap[1].Args[1], "arg1.Body") && strings.HasPrefix(ap[1].Args[0], "append(")
			r.Check(okOrder, R, f.Name+"/order", ap.Pos(p), "prefix, Header, Body appended in order", "the frame is not prefix‖Header‖Body: "+argsOf(ap))
			wr := f.Ev("call", "Conn.Write")
			r.Check(len(wr) == 1, R, f.Name+"/one-write", wr.Pos(p), "one Write of the whole frame", "the frame is not written with one Write")
			q.NilReturnsPass(R, f.Name+"/success-means-written", f, wr, "every nil return has written the frame", "Send can return nil without writing the frame: the message is silently not sent")
		} else {
			// net.Buffers{prefix, Header, Body}
			var seg []string
			// (built by append(net.Buffers{}, a, b, c) or by the literal net.Buffers{a, b, c})
			for _, tmp := range []string{"$varargs", "$slicelit"} {
				if len(seg) > 0 {
					break
				}
				for i := 0; i < 4; i++ {
					for _, e := range f.Ev("store", fmt.Sprintf("%s[%d]", tmp, i)) {
						seg = append(seg, e.Args[0])
					}
				}
			}
			okOrder := len(seg) == 3 && strings.HasPrefix(prefix, seg[0][:len(seg[0])-0][:minInt(len(seg[0]), len(prefix))][:0]+seg[0][:0]) && seg[1] == "arg1.Header" && seg[2] == "arg1.Body"
			if okOrder {
				// the first segment is the prefix buffer
				base := strings.TrimSuffix(strings.TrimSuffix(prefix, "[1:]"), "[:8]")
				okOrder = strings.HasPrefix(seg[0], base) || strings.HasPrefix(base, seg[0])
			}
			r.Check(okOrder, R, f.Name+"/order", f.Pos(), "segments are prefix, Header, Body — each once, in that order", fmt.Sprintf("the frame is not prefix‖Header‖Body each exactly once: segments %v", seg))
			wt := f.Ev("call", "net.(*Buffers).WriteTo")
			r.Check(len(wt) == 1 && wt[0].Unconditional(), R, f.Name+"/one-write", wt.Pos(p), "one vectored write of the whole frame", "the frame is not written by one WriteTo")
			q.NilReturnsPass(R, f.Name+"/success-means-written", f, wt, "every nil return has written the frame", "Send can return nil without writing the frame (e.g. a shortcut for an empty message): the message is silently not sent")
		}
	}
	for _, t := range []string{"conn", "connipc"} {
		f := q.Fn(R, "transport", t, "Recv")
		if !f.OK() {
			continue
		}
		L, rd, how := recvLength(p, f)
		okRd := L != ""
		r.Check(okRd, R, f.Name+"/length-read", rd.Pos(p), "length read as 8 bytes big-endian by a complete read ("+how+")", "the length prefix is not read completely as a 64-bit big-endian integer (binary.Read(BigEndian, &int64), or io.ReadFull of 8 bytes + BigEndian.Uint64): "+how)
		raw := f.Ev("call", "Conn.Read")
		if t == "connipc" {
			ok1 := len(raw) == 1 && litEq(raw[0].Args[1], "$one[:]") && len(rd) == 1 && rd.DominatedBy(raw)
			if ok1 {
				// $one is a 1-byte array
				ok1 = false
				call := raw[0].In.(*ssa.Call)
				if sl, ok := call.Call.Args[0].(*ssa.Slice); ok {
					if pt, ok := sl.X.Type().Underlying().(*types.Pointer); ok {
						if arr, ok := pt.Elem().Underlying().(*types.Array); ok && arr.Len() == 1 {
							ok1 = true
						}
					}
				}
			}
			r.Check(ok1, R, f.Name+"/ipc-type-byte", raw.Pos(p), "exactly one byte consumed before the length", "the IPC receiver does not consume exactly one type byte with a 1-byte read before the length (a multi-byte bare Read may return short)")
		} else {
			r.Check(len(raw) == 0, R, f.Name+"/no-partial-reads", raw.Pos(p), "no bare Read (which may return short)", "the stream receiver uses a bare Conn.Read, which may return fewer bytes than asked")
		}
		var rf Sel
		for _, e := range f.Ev("call", "io.ReadFull") {
			if strings.HasSuffix(e.Args[1], ".Body") {
				rf = append(rf, e)
			}
		}
		okb := len(rf) == 1 && strings.HasPrefix(rf[0].Args[1], "mangos.NewMessage(")
		r.Check(okb, R, f.Name+"/payload-readfull", rf.Pos(p), "payload read completely into the new message's Body", "the payload is not read with io.ReadFull into the Body of the message being returned")
		bs := f.Ev("store", "*.Body")
		r.Check(len(bs) == 1 && L != "" && strings.HasSuffix(bs[0].Args[0], ".Body[0:"+L+"]"), R, f.Name+"/body-length", bs.Pos(p), "Body = Body[0:sz]", "Body is not sized to exactly the announced length")
		var okRet Sel
		for _, e := range f.Ev("return", "") {
			if len(e.Args) == 2 && e.Args[1] == "nil" && strings.HasPrefix(e.Args[0], "mangos.NewMessage(") {
				okRet = append(okRet, e)
			}
		}
		r.Check(len(okRet) == 1 && okRet.DominatedBy(rf), R, f.Name+"/returns-that-message", okRet.Pos(p), "returns the message that was filled", "Recv does not return the message it filled")
	}
	streamSingleReader(p, r, R)
}

// hsReader: the source the handshake reads the peer header from (whatever it is; that all
// stream reads use the same one is streamSingleReader's obligation).
func hsReader(rd Sel) string {
	if len(rd) == 1 {
		return rd[0].Args[0]
	}
	return "recv.c"
}

// streamSingleReader: everything that reads from a stream connection — the handshake and the
// Recv of conn and of connipc — reads from the same source.  A buffering reader put in front
// of the connection for some of them keeps bytes the others never see: frames that arrive in
// the same segment as the peer's header are lost.
func streamSingleReader(p *Prog, r *Report, R string) {
	q := NewQ(p, r)
	srcs := map[string][]string{}
	n := 0
	for _, a := range [][2]string{{"conn", "Recv"}, {"connipc", "Recv"}, {"conn", "handshake"}} {
		fn := p.Func("transport", a[0], a[1])
		if fn == nil {
			continue
		}
		f := &F{q: q, fn: fn, Name: p.FuncName(fn), evs: p.Events(fn)}
		for _, e := range f.All() {
			if e.Kind != "call" {
				continue
			}
			var src string
			switch {
			case e.What == "binary.Read", e.What == "io.ReadFull", e.What == "io.ReadAtLeast":
				src = e.Args[0]
			case strings.HasSuffix(e.What, "Conn.Read"), strings.HasSuffix(e.What, ".Read") && strings.Contains(e.What, "bufio"):
				src = e.Args[0]
			default:
				continue
			}
			n++
			src = strings.Replace(src, "recv.conn.", "recv.", 1) // connipc embeds conn: the same field
			srcs[src] = append(srcs[src], p.InstrPos(e.In))
		}
	}
	var names []string
	for k, v := range srcs {
		names = append(names, k+" ("+strings.Join(v, ", ")+")")
	}
	sort.Strings(names)
	r.Check(len(srcs) == 1, R, "stream/single-reader", "-", "handshake and Recv of conn/connipc all read from "+strings.Join(names, ""), "the stream connection is read through different readers: "+strings.Join(names, "; ")+" — a buffering reader in front of the connection holds bytes that the direct reads never see (frames arriving together with the peer's header are lost)")
	r.Count("wire.stream_reads", n)
	r.Floor(R, "wire.stream_reads", 5)
}

func minInt(a, b int) int {
	if a < b {
		return a
	}
	return b
}

// wsRules: websocket mapping (C01.6, C15.5).
func wsRules(p *Prog, r *Report, R string) {
	q := NewQ(p, r)
	sd := q.Fn(R, "transport/ws", "wsPipe", "Send")
	if sd.OK() {
		wm := sd.Ev("call", "websocket.(*Conn).WriteMessage")
		r.Check(len(wm) == 1 && wm[0].Unconditional() && wm[0].Args[1] == "recv.dtype", R, "ws.Send/one-frame", wm.Pos(p), "exactly one WriteMessage of the pipe's data type per send", "ws Send does not write exactly one frame of type w.dtype: "+argsOf(wm))
		q.NilReturnsPass(R, "ws.Send/success-means-written", sd, wm, "every nil return has written the frame", "ws Send can return nil without writing a frame: the message is silently not sent")
		ap := sd.Ev("call", "append")
		okc := len(ap) == 2 && strings.HasSuffix(ap[0].Args[1], "arg1.Header") && ap[1].Args[1] == "arg1.Body" && strings.HasPrefix(ap[1].Args[0], "append(")
		r.Check(okc, R, "ws.Send/header-then-body", ap.Pos(p), "payload = Header‖Body", "the websocket payload is not Header followed by Body: "+argsOf(ap))
		if len(ap) == 2 {
			dom := map[string][]int64{"len(arg1.Header)": {0, 1, 4}, "len(arg1.Body)": {0, 1, 5}}
			res := ComparePred(predBlock(ap[0]), dom, nil, func(env map[string]int64) bool { return env["len(arg1.Header)"] > 0 })
			r.Check(res.OK && res.Undec == "", R, "ws.Send/header-included-iff-nonempty", ap.Pos(p), "the header is included whenever it is non-empty", "the header is dropped for some messages with a non-empty header: "+res.Counter+res.Undec)
		}
		// the frame payload is either that concatenation or Body alone
		if len(wm) == 1 {
			call := wm[0].In.(*ssa.Call)
			var leaves []ssa.Value
			timerSources(call.Call.Args[2], map[ssa.Value]bool{}, &leaves)
			okp := len(leaves) == 2
			for _, lf := range leaves {
				d := Desc(lf)
				if !(d == "arg1.Body" || strings.HasPrefix(d, "append(append(make([],0,(len(arg1.Header) + len(arg1.Body))),arg1.Header),arg1.Body)")) {
					okp = false
				}
			}
			r.Check(okp, R, "ws.Send/payload-sources", wm.Pos(p), "frame payload ∈ {Body (empty header), Header‖Body}", "the frame payload has another source")
		}
	}
	rc := q.Fn(R, "transport/ws", "wsPipe", "Recv")
	if rc.OK() {
		rm := rc.Ev("call", "websocket.(*Conn).ReadMessage")
		bs := rc.Ev("store", "*.Body")
		r.Check(len(rm) == 1 && len(bs) == 1 && strings.HasSuffix(bs[0].Args[0], "ReadMessage(recv.ws)#1"), R, "ws.Recv/whole-frame", bs.Pos(p), "one ReadMessage; the whole frame becomes Body", "ws Recv does not deliver the whole frame payload as Body")
	}
	// dtype is BinaryMessage in every wsPipe literal
	nlit := 0
	okAll := true
	for _, fn := range p.Funcs {
		if rel, _ := p.FuncRel(fn); rel != "transport/ws" {
			continue
		}
		for _, e := range p.Events(fn) {
			if e.Kind == "store" && strings.HasSuffix(e.What, ".dtype") {
				nlit++
				if e.Args[0] != p.wsBinaryConst() {
					okAll = false
				}
			}
		}
	}
	r.Check(nlit >= 2 && okAll, R, "ws/binary-frames", "-", fmt.Sprintf("%d pipe constructions set dtype = BinaryMessage", nlit), "a websocket pipe is created with a data type other than BinaryMessage")
	// sub-protocol names
	dl := q.Fn(R, "transport/ws", "dialer", "Dial")
	okd := false
	if dl.OK() {
		for _, e := range dl.AllEv("store", "") {
			if e.Args[0] == `(recv.proto.PeerName + ".sp.nanomsg.org")` {
				okd = true
			}
		}
		r.Check(okd, R, "ws/dialer-offers-peer-name", dl.Pos(), `offers PeerName + ".sp.nanomsg.org"`, "the websocket dialer does not offer the sub-protocol <PeerName>.sp.nanomsg.org")
		// exactly that one name on every attempt: the offer is a fresh one-element list (a list
		// kept across redials and appended to offers the name twice on the second connection)
		one, nst := true, 0
		why := ""
		for _, e := range dl.AllEv("store", "") {
			if !strings.HasSuffix(e.What, ".Subprotocols") {
				continue
			}
			nst++
			st, _ := e.In.(*ssa.Store)
			ok1 := false
			if st != nil {
				if sl, isSl := st.Val.(*ssa.Slice); isSl {
					if al, isAl := sl.X.(*ssa.Alloc); isAl {
						if pt, isP := al.Type().Underlying().(*types.Pointer); isP {
							if at, isA := pt.Elem().Underlying().(*types.Array); isA && at.Len() == 1 {
								ok1 = true
							}
						}
					}
				}
			}
			if !ok1 {
				one = false
				why = e.Args[0] + " at " + p.InstrPos(e.In)
			}
		}
		r.Check(nst >= 1 && one, R, "ws/dialer-offers-exactly-one", dl.Pos(), "the offered sub-protocol list is a fresh one-element list on every Dial", "the websocket dialer's sub-protocol offer is not a fresh one-element list ("+why+"): a redial offers the name more than once (RFC 6455 requires the offered values to be unique)")
	}
	sh := q.Fn(R, "transport/ws", "listener", "ServeHTTP")
	if sh.OK() {
		up := sh.Ev("call", "websocket.(*Upgrader).Upgrade")
		okm := false
		// the function that does the matching: ServeHTTP itself, or a private predicate it calls
		// (`if !l.offersOurProtocol(r) { refuse }`) whose result decides the upgrade
		matchFn := sh.fn
		hasCmp := func(fn *ssa.Function, recvDesc string) bool {
			found := false
			EachInstr(fn, func(in ssa.Instruction) {
				if bo, ok := in.(*ssa.BinOp); ok && strings.Contains(Desc(bo), `.proto.SelfName + ".sp.nanomsg.org")`) {
					found = true
				}
			})
			return found
		}
		var helperCall *ssa.Call
		if hasCmp(sh.fn, "") {
			okm = true
		} else {
			EachInstr(sh.fn, func(in ssa.Instruction) {
				call, ok := in.(*ssa.Call)
				if !ok {
					return
				}
				sc := call.Call.StaticCallee()
				if sc == nil || sc.Blocks == nil || !p.moduleFunc(sc) || sc.Pkg != sh.fn.Pkg || !isBoolType(call.Type()) {
					return
				}
				if hasCmp(sc, "") {
					okm = true
					matchFn = sc
					helperCall = call
				}
			})
		}
		// the "some offered sub-protocol matched" flag only ever goes from false to true
		// (the flag is the boolean local the upgrade is conditional on, whatever its name)
		flag := ""
		if len(up) == 1 && helperCall == nil {
			for _, a := range up[0].Guard {
				if localTok.FindString(a) == a && strings.HasPrefix(a, "φ") {
					flag = a
				}
			}
		}
		helperGuards := false
		if helperCall != nil && len(up) == 1 {
			// the upgrade is conditional on the predicate's result ...
			for _, at := range p.GuardsOf(up[0].In.Block()) {
				if at.Cond == ssa.Value(helperCall) && at.Pol {
					helperGuards = true
				}
				if u, ok := at.Cond.(*ssa.UnOp); ok && u.Op == token.NOT && u.X == ssa.Value(helperCall) && !at.Pol {
					helperGuards = true
				}
			}
			// ... and the flag is what the predicate returns
			EachInstr(matchFn, func(in ssa.Instruction) {
				if ret, ok := in.(*ssa.Return); ok && len(ret.Results) == 1 {
					if ph, ok := resolveSpill(ret.Results[0], ret).(*ssa.Phi); ok {
						flag = Desc(ph)
					}
				}
			})
		}
		mono, nphi := true, 0
		EachInstr(matchFn, func(in ssa.Instruction) {
			ph, ok := in.(*ssa.Phi)
			if !ok || flag == "" || Desc(ph) != flag {
				return
			}
			nphi++
			for _, e := range ph.Edges {
				switch x := e.(type) {
				case *ssa.Const:
				case *ssa.Phi:
					if Desc(x) != flag {
						mono = false
					}
				default:
					mono = false
				}
			}
		})
		r.Check(nphi > 0 && mono, R, "ws/any-offered-subprotocol-may-match", sh.Pos(), "the match flag is only ever set (to true) inside the loop over the offered sub-protocols: any position in the client's list matches", "the match flag is overwritten by each offered sub-protocol (or is no longer a set-once flag): a client that offers <name>.sp.nanomsg.org followed by another sub-protocol is refused")
		r.Check(okm, R, "ws/listener-requires-self-name", sh.Pos(), `requires SelfName + ".sp.nanomsg.org"`, "ServeHTTP does not compare the offered sub-protocols with <SelfName>.sp.nanomsg.org")
		he := sh.Ev("call", "http.Error")
		okOrder := len(up) == 1 && len(he) >= 1
		if okOrder {
			okOrder = flag != "" && (hasAtom(up[0].Guard, flag) || helperGuards)
		}
		r.Check(okOrder, R, "ws/mismatch-before-upgrade", up.Pos(p), "a mismatching peer is refused before the upgrade", "the upgrade happens without a matching sub-protocol")
	}
	// the upgrader answers with the listener's own name (wherever the listener is built)
	oku, oks := false, false
	var clobber []string
	nSub := 0
	for _, fn := range p.Funcs {
		if rel, _ := p.FuncRel(fn); rel != "transport/ws" {
			continue
		}
		for _, e := range p.Events(fn) {
			if e.Kind != "store" {
				continue
			}
			// the upgrader is configured once: nothing replaces it (or its sub-protocol
			// list) afterwards, or the 101 response stops naming the SP sub-protocol
			if strings.HasSuffix(e.What, ".ug") {
				clobber = append(clobber, p.FuncName(fn)+" replaces the whole upgrader at "+p.InstrPos(e.In))
			}
			if strings.HasSuffix(e.What, ".ug.Subprotocols") {
				nSub++
				if nSub > 1 {
					clobber = append(clobber, p.FuncName(fn)+" overwrites Subprotocols at "+p.InstrPos(e.In))
				}
			}
			if strings.Contains(e.Args[0], `.proto.SelfName + ".sp.nanomsg.org")`) {
				oku = true
			}
			if strings.HasSuffix(e.What, ".ug.Subprotocols") {
				oks = true
			}
		}
	}
	r.Check(len(clobber) == 0, R, "ws/upgrader-configured-once", "-", "the upgrader and its sub-protocol list are set once, when the listener is built", "the listener's websocket upgrader is replaced after construction, dropping Subprotocols: the handshake response no longer selects <SelfName>.sp.nanomsg.org and a conforming peer (RFC 6455 §4.1) must fail the connection: "+strings.Join(clobber, "; "))
	r.Check(oku && oks, R, "ws/upgrader-offers-self-name", "-", "upgrader answers with SelfName + suffix", "the upgrader does not answer with <SelfName>.sp.nanomsg.org")
}

func (p *Prog) wsBinaryConst() string { return "2" } // websocket.BinaryMessage (RFC 6455 opcode 2)

// inprocRules: C01.7.
func inprocRules(p *Prog, r *Report, R string) {
	q := NewQ(p, r)
	sd := q.Fn(R, "transport/inproc", "inproc", "Send")
	if !sd.OK() {
		return
	}
	nm := sd.Ev("call", "mangos.NewMessage")
	r.Check(len(nm) == 1 && nm[0].Args[0] == "(len(arg1.Header) + len(arg1.Body))", R, "inproc.Send/fresh-message", nm.Pos(p), "a fresh message sized Header+Body", "inproc Send does not build a fresh message of size len(Header)+len(Body)")
	ap := sd.Ev("call", "append")
	okc := len(ap) == 2 && ap[0].Args[1] == "arg1.Header" && ap[1].Args[1] == "arg1.Body" && strings.HasSuffix(ap[0].Args[0], ".Body") && strings.HasSuffix(ap[1].Args[0], ".Body")
	r.Check(okc, R, "inproc.Send/header-then-body", ap.Pos(p), "Body receives Header then Body", "inproc payload is not Header followed by Body: "+argsOf(ap))
	snd := sd.Ev("select-send", "recv.wq")
	r.Check(len(snd) == 1 && strings.HasPrefix(snd[0].Args[0], "mangos.NewMessage("), R, "inproc.Send/queues-the-copy", snd.Pos(p), "the copy (not the caller's message) is queued to the peer", "inproc Send queues the caller's own message to the peer (ownership is shared across sockets)")
}

// acceptLoopRules: the goroutine that accepts connections does nothing per connection that
// waits for the peer: inside the loop around Listener.Accept the only network wait is the
// Accept itself (the SP — and TLS — negotiation runs on the handshaker's goroutines).  A
// synchronous read/handshake there lets one silent peer hold up every later one.
func acceptLoopRules(p *Prog, r *Report, R string) {
	n := 0
	e4 := p.E4()
	for _, fn := range p.Funcs {
		rel, _ := p.FuncRel(fn)
		if !strings.HasPrefix(rel, "transport/") {
			continue
		}
		EachInstr(fn, func(in ssa.Instruction) {
			c := CallOf(in)
			if c == nil {
				return
			}
			isAccept := c.IsInvoke() && c.Method.Name() == "Accept" && strings.Contains(typeShort(c.Value.Type()), "Listener")
			if sc := c.StaticCallee(); sc != nil && pkgPathOf(sc) == "net" && strings.HasPrefix(sc.Name(), "Accept") {
				isAccept = true
			}
			if !isAccept {
				return
			}
			_, body := loopBody(in.Block())
			if body == nil {
				return
			}
			n++
			key := p.FuncName(fn) + "/accept-loop"
			var bad []string
			for b := range body {
				for _, x := range b.Instrs {
					if x == in {
						continue
					}
					if _, isGo := x.(*ssa.Go); isGo {
						continue
					}
					if bi := directBlocking(x); bi != nil && bi.Kind == "net-io" {
						bad = append(bad, bi.What+" at "+p.InstrPos(x))
						continue
					}
					for _, callee := range p.E1().syncCallees[x] {
						if bc := e4.may[callee]; bc != nil && bc.Info.Kind == "net-io" {
							bad = append(bad, bc.Info.What+" (through "+strings.Join(bc.Chain, " -> ")+") at "+p.InstrPos(x))
						}
						// nor for anything else that only another goroutine can end: a channel
						// operation, a WaitGroup or a condition variable somewhere below the call
						if what, chain := p.mayParkBelow(callee, map[*ssa.Function]bool{}, 0); what != "" {
							bad = append(bad, what+" (through "+chain+") at "+p.InstrPos(x))
						}
					}
					if bi := directBlocking(x); bi != nil && (bi.Kind == "chan-send" || bi.Kind == "chan-recv" || bi.Kind == "select" || bi.Kind == "wg-wait" || bi.Kind == "cond-wait") {
						bad = append(bad, bi.What+" at "+p.InstrPos(x))
					}
				}
			}
			sort.Strings(bad)
			r.Check(len(bad) == 0, R, key, p.InstrPos(in), "the only network wait in the accept loop is Accept itself", "the accept loop waits for the accepted peer ("+strings.Join(bad, "; ")+"): a peer that connects and stays silent blocks the loop, and every later peer is never accepted")
		})
	}
	r.Count("wire.accept_loops", n)
}

// mayParkBelow: fn, or something it calls synchronously inside the module, can park the
// goroutine on a channel, a WaitGroup or a condition variable.
func (p *Prog) mayParkBelow(fn *ssa.Function, seen map[*ssa.Function]bool, depth int) (string, string) {
	if fn == nil || seen[fn] || depth > 6 || fn.Blocks == nil || !p.moduleFunc(fn) {
		return "", ""
	}
	seen[fn] = true
	what, chain := "", ""
	EachInstr(fn, func(in ssa.Instruction) {
		if what != "" {
			return
		}
		if _, isDefer := in.(*ssa.Defer); isDefer {
			return
		}
		if bi := directBlocking(in); bi != nil {
			switch bi.Kind {
			case "chan-send", "chan-recv", "select", "wg-wait", "cond-wait":
				what, chain = bi.What+" at "+p.InstrPos(in), p.FuncName(fn)
				return
			}
		}
		for _, callee := range p.E1().syncCallees[in] {
			if w, c := p.mayParkBelow(callee, seen, depth+1); w != "" {
				what, chain = w, p.FuncName(fn)+" -> "+c
				return
			}
		}
	})
	return what, chain
}

// recvLength: the canonical description of the announced frame length in a stream Recv,
// for either complete-read idiom:
//
//	binary.Read(c, binary.BigEndian, &sz)           (sz a 64-bit integer)   -> "$sz"
//	io.ReadFull(c, buf[:]) ; int64(BigEndian.Uint64(buf[:]))  (buf [8]byte) -> that value
//
// Returns "" when neither is found; the second result is the read event.
func recvLength(p *Prog, f *F) (string, Sel, string) {
	rd := f.Ev("call", "binary.Read")
	if len(rd) == 1 && rd[0].Args[1] == "encoding/binary.BigEndian" && strings.HasPrefix(rd[0].Args[2], "$") {
		call := rd[0].In.(*ssa.Call)
		if mi, ok := call.Call.Args[2].(*ssa.MakeInterface); ok {
			if pt, ok := mi.X.Type().Underlying().(*types.Pointer); ok {
				if b, ok := pt.Elem().Underlying().(*types.Basic); ok && (b.Kind() == types.Int64 || b.Kind() == types.Uint64) {
					return rd[0].Args[2], rd, "binary.Read into " + rd[0].Args[2]
				}
			}
		}
		return "", rd, "binary.Read target is not a 64-bit integer"
	}
	// io.ReadFull of an 8-byte array, then Uint64 of the same array
	for _, e := range f.Ev("call", "io.ReadFull") {
		call := e.In.(*ssa.Call)
		sl, ok := call.Call.Args[1].(*ssa.Slice)
		if !ok || sl.Low != nil || sl.High != nil {
			continue
		}
		pt, ok := sl.X.Type().Underlying().(*types.Pointer)
		if !ok {
			continue
		}
		arr, ok := pt.Elem().Underlying().(*types.Array)
		if !ok || arr.Len() != 8 {
			continue
		}
		for _, u := range f.Ev("call", "binary.(bigEndian).Uint64") {
			uc := u.In.(*ssa.Call)
			if s2, ok := uc.Call.Args[len(uc.Call.Args)-1].(*ssa.Slice); ok && s2.X == sl.X && InstrDominates(e.In, u.In) {
				// the value the code works with: the conversion of the call result, if any
				var v ssa.Value = uc
				if refs := uc.Referrers(); refs != nil {
					for _, ref := range *refs {
						if cv, ok := ref.(*ssa.Convert); ok {
							v = cv
						}
					}
				}
				return Desc(v), Sel{e}, "io.ReadFull of 8 bytes + BigEndian.Uint64"
			}
		}
	}
	return "", rd, "no complete 8-byte big-endian read found: " + argsOf(rd)
}

// headerSplitOrder: wherever a receiver moves the leading word(s) of the body into the
// header with the two statements  m.Header = m.Body[:k] ; m.Body = m.Body[k:]  (same basic
// block), the header is taken first: in the other order the header is the SECOND word of
// what arrived (a wrong request/survey id or hop count) and the first k bytes are lost.
func headerSplitOrder(p *Prog, r *Report, R string, inPkg func(rel string) bool) {
	n := 0
	for _, fn := range p.Funcs {
		rel, _ := p.FuncRel(fn)
		if !inPkg(rel) {
			continue
		}
		for _, b := range fn.Blocks {
			var hs, bs *ssa.Store
			for _, in := range b.Instrs {
				st, ok := in.(*ssa.Store)
				if !ok {
					continue
				}
				fa, ok := st.Addr.(*ssa.FieldAddr)
				if !ok || !isMsgPtr(fa.X.Type()) {
					continue
				}
				sl, ok := st.Val.(*ssa.Slice)
				if !ok {
					continue
				}
				mv, fld := derivedFromMsg(sl)
				if mv == nil || fld != "Body" || Desc(mv) != Desc(fa.X) {
					continue
				}
				switch fieldName(fa.X.Type(), fa.Field) {
				case "Header":
					if sl.Low == nil && sl.High != nil && hs == nil {
						hs = st
					}
				case "Body":
					if sl.Low != nil && sl.High == nil && bs == nil {
						bs = st
					}
				}
			}
			if hs == nil || bs == nil {
				continue
			}
			n++
			r.Check(instrIndex(hs) < instrIndex(bs), R, p.FuncName(fn)+"/header-before-advance", p.InstrPos(hs), "the header is taken from the body as received, then the body is advanced", "the body is advanced before the header is taken from it: the header is the second word of what arrived and the first is lost")
		}
	}
	r.Count("wire.header_splits", n)
}

// dropDoesNotDisconnect: in a per-pipe receiver loop, discarding a message because IT is
// unacceptable (too short, too many hops, unknown id) goes on with the next message: the
// Free is inside the receive loop.  Only the arms of a select (pipe closing, queue resize)
// may leave the loop.  Otherwise one bad or merely over-limit message tears down the
// connection and everything queued on it.
func dropDoesNotDisconnect(p *Prog, r *Report, R string, inPkg func(rel string) bool) {
	n := 0
	for _, fn := range p.Funcs {
		rel, _ := p.FuncRel(fn)
		if !inPkg(rel) || fn.Name() != "receiver" {
			continue
		}
		var rcv ssa.Instruction
		EachInstr(fn, func(in ssa.Instruction) {
			if c := CallOf(in); c != nil && c.IsInvoke() && c.Method.Name() == "RecvMsg" {
				rcv = in
			}
		})
		if rcv == nil {
			continue
		}
		// the outermost loop containing the receive
		// (a loop = all back edges to one header: every `continue` is its own back edge)
		var body map[*ssa.BasicBlock]bool
		byHead := map[*ssa.BasicBlock]map[*ssa.BasicBlock]bool{}
		for _, t := range fn.Blocks {
			for _, h := range t.Succs {
				if !h.Dominates(t) {
					continue
				}
				b := byHead[h]
				if b == nil {
					b = map[*ssa.BasicBlock]bool{h: true}
					byHead[h] = b
				}
				stack := []*ssa.BasicBlock{t}
				for len(stack) > 0 {
					x := stack[len(stack)-1]
					stack = stack[:len(stack)-1]
					if b[x] {
						continue
					}
					b[x] = true
					stack = append(stack, x.Preds...)
				}
			}
		}
		for _, b := range byHead {
			if b[rcv.Block()] && len(b) > len(body) {
				body = b
			}
		}
		if body == nil {
			continue
		}
		for _, e := range p.Events(fn) {
			if e.Kind != "call" || e.What != "mangos.(*Message).Free" {
				continue
			}
			sel := false
			for _, g := range e.Guard {
				if strings.HasPrefix(g, "arm(") || strings.HasPrefix(g, "!arm(") {
					sel = true
				}
			}
			if sel {
				continue
			}
			n++
			r.Check(body[e.In.Block()], R, p.FuncName(fn)+"/drop@"+strings.Join(e.Guard, "&&"), p.InstrPos(e.In), "the discard stays inside the receive loop", "a message is discarded on a condition about the message itself ("+strings.Join(e.Guard, " && ")+") and the receive loop is left: the pipe is closed and the peer disconnected because of one unacceptable message")
		}
	}
	r.Count("wire.receiver_drops", n)
}

// headerLocal: the description ("$name") of the local variable of type connHeader in fn — the
// wire header the handshake sends and then reads back into; found by its type, not its name.
func headerLocal(fn *ssa.Function) string {
	name := ""
	EachInstr(fn, func(in ssa.Instruction) {
		al, ok := in.(*ssa.Alloc)
		if !ok {
			return
		}
		if pt, ok := al.Type().Underlying().(*types.Pointer); ok {
			if n, ok := pt.Elem().(*types.Named); ok && n.Obj().Name() == "connHeader" {
				name = "$" + al.Comment
			}
		}
	})
	return name
}
