package an

import (
	"fmt"
	"go/types"
	"sort"
	"strings"

	"golang.org/x/tools/go/callgraph"
	"golang.org/x/tools/go/ssa"
)

// E1 LOCKPAIR: lock typestate per function on SSA (forward dataflow), with parameter-
// relative acquisition summaries for callees.  Also the provider of "held lock set at
// instruction" for E2, E3 and E4.

// LockRef is one held lock: instance path inside the function + abstract identity.
type LockRef struct {
	Path string // "s.Mutex", "p.lock", "core.pipeIDs.lock"
	Abs  string // "protocol/xpair.socket.Mutex", "global:internal/core.pipeIDs.lock"
	R    bool   // read lock
	At   ssa.Instruction
}

type lockState struct {
	held     []LockRef // ordered by acquisition
	deferred []LockRef // deferred unlocks (paths)
}

func (s lockState) clone() lockState {
	return lockState{held: append([]LockRef{}, s.held...), deferred: append([]LockRef{}, s.deferred...)}
}

func (s lockState) key() string {
	var a, b []string
	for _, h := range s.held {
		a = append(a, h.Path)
	}
	for _, d := range s.deferred {
		b = append(b, d.Path)
	}
	sort.Strings(a)
	sort.Strings(b)
	return strings.Join(a, ",") + "|" + strings.Join(b, ",")
}

func (s lockState) has(path string) bool {
	for _, h := range s.held {
		if h.Path == path {
			return true
		}
	}
	return false
}

// E1Issue is one finding of the lock typestate analysis.
type E1Issue struct {
	Kind string // "held-at-return", "double-lock", "unlock-not-held", "join", "callee-relock"
	Fn   *ssa.Function
	In   ssa.Instruction
	Lock LockRef
	Msg  string
	Wit  []string
}

type e1Result struct {
	held        map[ssa.Instruction][]LockRef // held set *before* the instruction
	issues      []E1Issue
	acqFuncs    int // functions with at least one acquisition
	acqSites    int // lock acquisition instructions
	unlSites    int
	deferUnl    int
	summ        map[*ssa.Function][]acqPath           // param-relative acquisition summaries
	absAcq      map[*ssa.Function]map[string][]string // abstract locks a function may acquire (transitively, sync) -> call chain
	syncCallees map[ssa.Instruction][]*ssa.Function
}

// acqPath: a lock acquired by a function, relative to one of its parameters / free
// variables / a global.
type acqPath struct {
	Kind  string // "param", "free", "global"
	Index int
	Chain string // ".s.Mutex" (may be "")
	Abs   string
	Via   []string // call chain (function names)
}

type lockOp struct {
	op   string // "Lock","Unlock","RLock","RUnlock"
	recv ssa.Value
}

// classifyLockCall recognises calls of sync.Mutex / sync.RWMutex methods.
func classifyLockCall(c *ssa.CallCommon) *lockOp {
	fn := c.StaticCallee()
	if fn == nil || fn.Signature.Recv() == nil || len(c.Args) == 0 {
		return nil
	}
	var pk *types.Package
	if o := fn.Object(); o != nil {
		pk = o.Pkg()
	}
	if pk == nil || pk.Path() != "sync" {
		return nil
	}
	t := fn.Signature.Recv().Type()
	if pt, ok := t.(*types.Pointer); ok {
		t = pt.Elem()
	}
	n, ok := t.(*types.Named)
	if !ok {
		return nil
	}
	if n.Obj().Name() != "Mutex" && n.Obj().Name() != "RWMutex" {
		return nil
	}
	switch fn.Name() {
	case "Lock", "Unlock", "RLock", "RUnlock":
		return &lockOp{op: fn.Name(), recv: c.Args[0]}
	}
	return nil
}

// RootOf descends through field selections and loads to the root of an access path.
func RootOf(v ssa.Value) (ssa.Value, string) {
	chain := ""
	for i := 0; i < 20; i++ {
		switch x := v.(type) {
		case *ssa.FieldAddr:
			chain = "." + fieldName(x.X.Type(), x.Field) + chain
			v = x.X
			continue
		case *ssa.Field:
			chain = "." + fieldName(x.X.Type(), x.Field) + chain
			v = x.X
			continue
		case *ssa.UnOp:
			if x.Op.String() == "*" {
				v = x.X
				continue
			}
		case *ssa.Alloc:
			if src := allocSource(x); src != nil {
				v = src
				continue
			}
		case *ssa.ChangeType:
			v = x.X
			continue
		}
		break
	}
	return v, chain
}

// AbsLock gives the type-based identity of a mutex expression.
func AbsLock(recv ssa.Value) string {
	switch x := recv.(type) {
	case *ssa.FieldAddr:
		if n := namedOf(x.X.Type()); n != nil {
			return TypeKey(n) + "." + fieldName(x.X.Type(), x.Field)
		}
		return "anon." + fieldName(x.X.Type(), x.Field)
	case *ssa.Global:
		return "global:" + Desc(x)
	case *ssa.UnOp:
		return AbsLock(x.X)
	case *ssa.Alloc:
		if src := allocSource(x); src != nil {
			return AbsLock(src)
		}
	}
	// a *sync.Mutex held in a variable: use its description
	return "val:" + Desc(recv)
}

// isOnceDo recognises (*sync.Once).Do(f) and returns f's function if it is a closure or
// function value known statically.
func isOnceDo(c *ssa.CallCommon) (*ssa.Function, ssa.Value, bool) {
	if !CalleeIs(c, "sync", "Once", "Do") || len(c.Args) < 2 {
		return nil, nil, false
	}
	switch f := c.Args[1].(type) {
	case *ssa.MakeClosure:
		fn, _ := f.Fn.(*ssa.Function)
		return fn, c.Args[0], true
	case *ssa.Function:
		return f, c.Args[0], true
	}
	return nil, c.Args[0], true
}

// moduleFunc: fn belongs to a subject package of the analysed module (incl. synthetic
// wrappers); examples, perf and the test helper packages are not analysis subjects and
// are not followed as callees either.
func (p *Prog) moduleFunc(fn *ssa.Function) bool {
	if fn == nil {
		return false
	}
	rel, ok := p.FuncRel(fn)
	return ok && subjectRel(rel)
}

// SyncCallees returns the in-module functions a call instruction may invoke
// synchronously: the static callee, VTA targets of interface/dynamic calls, and the
// closure of a Once.Do.  `go` statements are not synchronous.
func (p *Prog) SyncCallees(in ssa.Instruction) []*ssa.Function {
	r := p.E1()
	return r.syncCallees[in]
}

func (p *Prog) computeSyncCallees(r *e1Result) {
	r.syncCallees = map[ssa.Instruction][]*ssa.Function{}
	cg := p.CG()
	for fn := range p.All {
		if !p.moduleFunc(fn) || fn.Blocks == nil {
			continue
		}
		node := cg.Nodes[fn]
		bySite := map[ssa.CallInstruction][]*callgraph.Edge{}
		if node != nil {
			for _, e := range node.Out {
				if e.Site != nil {
					bySite[e.Site] = append(bySite[e.Site], e)
				}
			}
		}
		EachInstr(fn, func(in ssa.Instruction) {
			ci, ok := in.(ssa.CallInstruction)
			if !ok {
				return
			}
			if _, isGo := in.(*ssa.Go); isGo {
				return
			}
			c := ci.Common()
			if f, _, ok := isOnceDo(c); ok {
				if f != nil {
					r.syncCallees[in] = []*ssa.Function{f}
				}
				return
			}
			if sc := c.StaticCallee(); sc != nil {
				if p.moduleFunc(sc) && sc.Blocks != nil {
					r.syncCallees[in] = []*ssa.Function{sc}
				}
				return
			}
			if _, isB := c.Value.(*ssa.Builtin); isB {
				return
			}
			var out []*ssa.Function
			seen := map[*ssa.Function]bool{}
			for _, e := range bySite[ci] {
				t := e.Callee.Func
				if p.moduleFunc(t) && t.Blocks != nil && !seen[t] {
					seen[t] = true
					out = append(out, t)
				}
			}
			sort.Slice(out, func(i, j int) bool { return out[i].String() < out[j].String() })
			if len(out) > 0 {
				r.syncCallees[in] = out
			}
		})
	}
}

// E1 runs (once per Prog) the lock typestate over every in-module function.
func (p *Prog) E1() *e1Result {
	if p.e1 != nil {
		return p.e1
	}
	r := &e1Result{held: map[ssa.Instruction][]LockRef{}, summ: map[*ssa.Function][]acqPath{},
		absAcq: map[*ssa.Function]map[string][]string{}}
	p.e1 = r
	p.computeSyncCallees(r)

	var fns []*ssa.Function
	for fn := range p.All {
		if p.moduleFunc(fn) && fn.Blocks != nil {
			fns = append(fns, fn)
		}
	}
	sort.Slice(fns, func(i, j int) bool { return fns[i].String() < fns[j].String() })

	// 1. direct acquisition summaries, then transitive closure (fixpoint)
	direct := map[*ssa.Function][]acqPath{}
	for _, fn := range fns {
		EachInstr(fn, func(in ssa.Instruction) {
			c := CallOf(in)
			if c == nil {
				return
			}
			if _, isGo := in.(*ssa.Go); isGo {
				return
			}
			lo := classifyLockCall(c)
			if lo == nil || (lo.op != "Lock" && lo.op != "RLock") {
				return
			}
			if _, isDefer := in.(*ssa.Defer); isDefer {
				return
			}
			if ap, ok := relPath(fn, lo.recv); ok {
				ap.Abs = AbsLock(lo.recv)
				ap.Via = []string{p.FuncName(fn)}
				direct[fn] = append(direct[fn], ap)
			}
		})
	}
	for fn, d := range direct {
		r.summ[fn] = append(r.summ[fn], d...)
	}
	for iter := 0; iter < 8; iter++ {
		changed := false
		for _, fn := range fns {
			EachInstr(fn, func(in ssa.Instruction) {
				callees := r.syncCallees[in]
				if len(callees) == 0 {
					return
				}
				c := CallOf(in)
				for _, callee := range callees {
					for _, ap := range r.summ[callee] {
						actual, ok := substActual(in, c, callee, ap)
						if !ok {
							continue
						}
						root, chain := RootOf(actual)
						np2, ok := relRoot(fn, root)
						if !ok {
							continue
						}
						np2.Chain = chain + ap.Chain
						np2.Abs = ap.Abs
						if len(ap.Via) < 6 {
							np2.Via = append([]string{p.FuncName(fn)}, ap.Via...)
						} else {
							np2.Via = ap.Via
						}
						if !hasAcq(r.summ[fn], np2) {
							r.summ[fn] = append(r.summ[fn], np2)
							changed = true
						}
					}
				}
			})
		}
		if !changed {
			break
		}
	}
	// abstract transitive acquisitions
	for _, fn := range fns {
		m := map[string][]string{}
		for _, ap := range direct[fn] {
			if _, ok := m[ap.Abs]; !ok {
				m[ap.Abs] = []string{p.FuncName(fn)}
			}
		}
		// also globals / non-param-relative direct locks
		EachInstr(fn, func(in ssa.Instruction) {
			c := CallOf(in)
			if c == nil {
				return
			}
			if _, isGo := in.(*ssa.Go); isGo {
				return
			}
			if _, isDefer := in.(*ssa.Defer); isDefer {
				return
			}
			if lo := classifyLockCall(c); lo != nil && (lo.op == "Lock" || lo.op == "RLock") {
				a := AbsLock(lo.recv)
				if _, ok := m[a]; !ok {
					m[a] = []string{p.FuncName(fn)}
				}
			}
			if _, _, ok := isOnceDo(c); ok {
				a := "once:" + AbsLock(c.Args[0])
				if _, ok := m[a]; !ok {
					m[a] = []string{p.FuncName(fn)}
				}
			}
		})
		r.absAcq[fn] = m
	}
	for iter := 0; iter < 12; iter++ {
		changed := false
		for _, fn := range fns {
			m := r.absAcq[fn]
			EachInstr(fn, func(in ssa.Instruction) {
				for _, callee := range r.syncCallees[in] {
					for a, via := range r.absAcq[callee] {
						if _, ok := m[a]; !ok {
							chain := append([]string{p.FuncName(fn)}, via...)
							if len(chain) > 8 {
								chain = chain[:8]
							}
							m[a] = chain
							changed = true
						}
					}
				}
			})
		}
		if !changed {
			break
		}
	}

	// 2. typestate per function
	for _, fn := range fns {
		p.e1Func(r, fn)
	}
	return r
}

func hasAcq(l []acqPath, a acqPath) bool {
	for _, x := range l {
		if x.Kind == a.Kind && x.Index == a.Index && x.Chain == a.Chain {
			return true
		}
	}
	return false
}

// relRoot expresses a root value relative to fn's parameters / free variables / globals.
func relRoot(fn *ssa.Function, root ssa.Value) (acqPath, bool) {
	switch x := root.(type) {
	case *ssa.Parameter:
		for i, pp := range fn.Params {
			if pp == x {
				return acqPath{Kind: "param", Index: i}, true
			}
		}
	case *ssa.FreeVar:
		for i, fv := range fn.FreeVars {
			if fv == x {
				return acqPath{Kind: "free", Index: i}, true
			}
		}
	case *ssa.Global:
		return acqPath{Kind: "global", Chain: ""}, true
	}
	return acqPath{}, false
}

func relPath(fn *ssa.Function, v ssa.Value) (acqPath, bool) {
	if v == nil {
		return acqPath{}, false
	}
	root, chain := RootOf(v)
	ap, ok := relRoot(fn, root)
	if !ok {
		return ap, false
	}
	if ap.Kind == "global" {
		ap.Chain = Desc(root) + chain
	} else {
		ap.Chain = chain
	}
	return ap, true
}

// substActual maps a callee-relative acquisition to the actual value at the call site.
func substActual(in ssa.Instruction, c *ssa.CallCommon, callee *ssa.Function, ap acqPath) (ssa.Value, bool) {
	switch ap.Kind {
	case "param":
		if f, _, ok := isOnceDo(c); ok && f == callee {
			return nil, false
		}
		if c.IsInvoke() {
			if ap.Index == 0 {
				return c.Value, true
			}
			if ap.Index-1 < len(c.Args) {
				return c.Args[ap.Index-1], true
			}
			return nil, false
		}
		if sc := c.StaticCallee(); sc != nil {
			if ap.Index < len(c.Args) {
				return c.Args[ap.Index], true
			}
			return nil, false
		}
		// dynamic call of a closure / function value: params map to args; receiver-less
		if mc, ok := c.Value.(*ssa.MakeClosure); ok {
			_ = mc
			if ap.Index < len(c.Args) {
				return c.Args[ap.Index], true
			}
		}
		return nil, false
	case "free":
		var mc *ssa.MakeClosure
		if f, _, ok := isOnceDo(c); ok && f == callee {
			mc, _ = c.Args[1].(*ssa.MakeClosure)
		} else {
			mc, _ = c.Value.(*ssa.MakeClosure)
		}
		if mc != nil && ap.Index < len(mc.Bindings) {
			return mc.Bindings[ap.Index], true
		}
		return nil, false
	}
	return nil, false
}

func (p *Prog) e1Func(r *e1Result, fn *ssa.Function) {
	if len(fn.Blocks) == 0 {
		return
	}
	in := make([]*lockState, len(fn.Blocks))
	in[0] = &lockState{}
	work := []*ssa.BasicBlock{fn.Blocks[0]}
	joinReported := map[int]bool{}
	issued := map[string]bool{}
	issue := func(kind string, at ssa.Instruction, l LockRef, msg string, wit ...string) {
		k := kind + "|" + l.Path + "|" + fmt.Sprint(at.Block().Index, instrIndex(at))
		if issued[k] {
			return
		}
		issued[k] = true
		r.issues = append(r.issues, E1Issue{Kind: kind, Fn: fn, In: at, Lock: l, Msg: msg, Wit: wit})
	}
	hasAcq := false
	visits := 0
	for len(work) > 0 && visits < 20000 {
		visits++
		b := work[len(work)-1]
		work = work[:len(work)-1]
		st := in[b.Index].clone()
		for _, ins := range b.Instrs {
			r.held[ins] = append([]LockRef{}, st.held...)
			switch x := ins.(type) {
			case *ssa.Defer:
				if lo := classifyLockCall(&x.Call); lo != nil && (lo.op == "Unlock" || lo.op == "RUnlock") {
					st.deferred = append(st.deferred, LockRef{Path: Desc(lo.recv), Abs: AbsLock(lo.recv), At: ins})
				}
			case *ssa.RunDefers:
				for i := len(st.deferred) - 1; i >= 0; i-- {
					d := st.deferred[i]
					found := false
					for j := len(st.held) - 1; j >= 0; j-- {
						if st.held[j].Path == d.Path {
							st.held = append(st.held[:j], st.held[j+1:]...)
							found = true
							break
						}
					}
					if !found {
						issue("unlock-not-held", d.At, d, "deferred Unlock of "+d.Path+" runs when the lock is not held")
					}
				}
				st.deferred = nil
			case *ssa.Return:
				for _, h := range st.held {
					issue("held-at-return", ins, h,
						fmt.Sprintf("return with %s still held (acquired at %s)", h.Path, p.InstrPos(h.At)),
						"acquired: "+p.InstrPos(h.At), "return: "+p.InstrPos(ins))
				}
			case ssa.CallInstruction:
				if _, isGo := ins.(*ssa.Go); isGo {
					break
				}
				c := x.Common()
				if lo := classifyLockCall(c); lo != nil {
					path := Desc(lo.recv)
					ref := LockRef{Path: path, Abs: AbsLock(lo.recv), R: lo.op == "RLock", At: ins}
					switch lo.op {
					case "Lock", "RLock":
						hasAcq = true
						if st.has(path) {
							issue("double-lock", ins, ref, fmt.Sprintf("%s of %s while it is already held (self-deadlock)", lo.op, path))
						}
						st.held = append(st.held, ref)
					case "Unlock", "RUnlock":
						found := false
						for j := len(st.held) - 1; j >= 0; j-- {
							if st.held[j].Path == path {
								st.held = append(st.held[:j], st.held[j+1:]...)
								found = true
								break
							}
						}
						if !found {
							issue("unlock-not-held", ins, ref, fmt.Sprintf("%s of %s which is not held on this path", lo.op, path))
						}
					}
					break
				}
				// callee re-acquiring a held lock
				if len(st.held) > 0 {
					for _, callee := range r.syncCallees[ins] {
						for _, ap := range r.summ[callee] {
							var path string
							if ap.Kind == "global" {
								path = ap.Chain
							} else {
								actual, ok := substActual(ins, c, callee, ap)
								if !ok {
									continue
								}
								path = Desc(actual) + ap.Chain
							}
							if st.has(path) {
								issue("callee-relock", ins, LockRef{Path: path, Abs: ap.Abs, At: ins},
									fmt.Sprintf("call may acquire %s which the caller already holds (self-deadlock)", path),
									"via: "+strings.Join(ap.Via, " -> "))
							}
						}
					}
				}
			}
		}
		// propagate
		for _, s := range b.Succs {
			if in[s.Index] == nil {
				c := st.clone()
				in[s.Index] = &c
				work = append(work, s)
				continue
			}
			if in[s.Index].key() != st.key() {
				if !joinReported[s.Index] && len(s.Instrs) > 0 {
					joinReported[s.Index] = true
					issue("join", s.Instrs[0], LockRef{Path: st.key()},
						fmt.Sprintf("paths meet with different lock states {%s} vs {%s}", in[s.Index].key(), st.key()))
				}
				// continue with the union (may-held) once, to surface held-at-return on either path
				merged := in[s.Index].clone()
				chg := false
				for _, h := range st.held {
					if !merged.has(h.Path) {
						merged.held = append(merged.held, h)
						chg = true
					}
				}
				if chg {
					in[s.Index] = &merged
					work = append(work, s)
				}
			}
		}
	}
	if hasAcq {
		r.acqFuncs++
	}
	EachInstr(fn, func(ins ssa.Instruction) {
		if c := CallOf(ins); c != nil {
			if lo := classifyLockCall(c); lo != nil {
				if _, d := ins.(*ssa.Defer); d {
					r.deferUnl++
				} else if lo.op == "Lock" || lo.op == "RLock" {
					r.acqSites++
				} else {
					r.unlSites++
				}
			}
		}
	})
}

// HeldAt returns the abstract locks held just before instruction in (intra-procedural).
func (p *Prog) HeldAt(in ssa.Instruction) []LockRef { return p.E1().held[in] }

// SameSection: instructions a and b (of one function) execute in the same critical section
// of some lock: either both are inside the same acquisition made by the function, or the
// function is only ever entered with a lock held (entry lockset) and never releases it —
// the case of a private helper documented as "called with the lock held".
func (p *Prog) SameSection(a, b ssa.Instruction) bool {
	if a == nil || b == nil || a.Parent() != b.Parent() {
		return false
	}
	e1 := p.E1()
	for _, h1 := range e1.held[a] {
		for _, h2 := range e1.held[b] {
			if h1.At == h2.At {
				return true
			}
		}
	}
	fn := a.Parent()
	entry := p.EntryLocks(fn)
	if len(entry) == 0 {
		return false
	}
	// the function must not touch the entry locks itself
	touches := false
	EachInstr(fn, func(in ssa.Instruction) {
		if c := CallOf(in); c != nil {
			if lo := classifyLockCall(c); lo != nil {
				touches = true
			}
		}
	})
	for l := range entry {
		if !strings.HasPrefix(l, "once:") && !touches {
			return true
		}
	}
	return false
}
