package an

import "strings"

func init() {
	register(&PropInfo{ID: "C07", Run: runC07,
		Explanation: "anchored shape rules + E10b + E5 on protocol/surveyor: responses are matched by the id word through a comma-ok lookup under the socket lock and queued non-blockingly inside that critical section; cancel runs once, unregisters the survey under the lock before closing its queue, clears the context's current survey only if it is this one, and drains the queue; a new survey is registered before the old one is cancelled; the survey reaches every pipe; Recv without a survey returns ErrProtoState without blocking and a closed queue yields the survey's own error; the expiry timer is armed from the survey-time option only when positive.",
		Assumptions: commonAssumptions})
}

const survMu = "protocol/surveyor.socket.Mutex"

func runC07(p *Prog, r *Report) {
	runSweeps(p, r, "C07.18/survey-reaches-every-respondent", "the loops that snapshot the connected respondents and offer the survey to each cannot be left early", surveySweeps)
	crossCutting(p, r, "C07.X", "protocol/surveyor", "protocol/xsurveyor", "protocol/respondent", "protocol/xrespondent")
	lockBalance(p, r, "C07.8/E1", "protocol/surveyor", "protocol/xsurveyor", "protocol/respondent")
	q := NewQ(p, r)
	R := "C07.1/response-matching"
	r.Describe(R, "surveyor receiver: id from the moved word (length-checked), comma-ok lookup in surveys under the lock, non-blocking send to that survey's queue in the same critical section, otherwise freed")
	rc := q.Fn(R, "protocol/surveyor", "pipe", "receiver")
	if rc.OK() {
		const idd = "binary.(bigEndian).Uint32(encoding/binary.BigEndian,recv.p.RecvMsg().Header)"
		mv := rc.Ev("store", "recv.p.RecvMsg().Header")
		r.Check(len(mv) == 1 && strings.HasSuffix(mv[0].Args[0], ".Body[:4])") && mv.AllGuarded("len(recv.p.RecvMsg().Body) >= 4"), R, "moves-one-word", mv.Pos(p), "one id word moved under a length check", "the survey id word is not moved under a length check")
		snd := rc.Ev("select-send", "")
		ok := len(snd) == 1 && snd[0].What == "recv.s.surveys["+idd+"]#0.recvQ" && hasAtom(snd[0].Guard, "recv.s.surveys["+idd+"]#1") && snd.AllHeld(survMu) && len(snd[0].Args) == 2 && snd[0].Args[1] == "nonblocking"
		r.Check(ok, R, "delivered-to-matching-survey-only", snd.Pos(p), "non-blocking send to surveys[id].recvQ on the lookup hit, under the lock", "a response is not delivered exactly to the survey registered under its id, under the lock: "+argsOf(snd)+" "+guardsOf(snd))
		fr := rc.Ev("call", "mangos.(*Message).Free")
		nfr := 0
		for _, e := range fr {
			if hasAtom(e.Guard, "φm != nil") {
				nfr++
			}
		}
		r.Check(nfr == 1, R, "unmatched-or-overflow-freed", fr.Pos(p), "a response that was not queued is freed", "a response that is not queued (unknown id / full queue) is not freed")
	}
	r.Describe("C07.2/E10b", "the survey queue is closed only after the survey was unregistered under the lock; senders look it up and send within one critical section")
	e10SendOnClosable(p, r, "C07.2/E10b")

	R = "C07.2/cancel"
	r.Describe(R, "survey.cancel: once; under the lock stops the timer, clears ctx.surv only if it is this survey, unregisters the id; then closes and drains the queue")
	cn := q.Fn(R, "protocol/surveyor", "survey", "cancel")
	if cn.OK() {
		once := cn.Ev("call", "sync.(*Once).Do")
		r.Check(len(once) == 1 && once[0].Unconditional(), R, "runs-once", once.Pos(p), "body inside once.Do", "cancel is not idempotent (once.Do)")
		cl := cn.Closure(R, 0)
		if cl.OK() {
			cs := cl.Ev("store", "recv.ctx.surv").Arg(0, "nil")
			r.Check(len(cs) == 1 && cs.AllGuarded("recv.ctx.surv == recv") && cs.AllHeld(survMu), R, "clears-current-only-if-own", cs.Pos(p), "ctx.surv = nil only if it is this survey, under the lock", "cancel clears the context's current survey although a newer survey may have replaced it (or does not clear it at all): Recv after expiry keeps waiting on / reading the dead survey: "+guardsOf(cs))
			del := cl.Ev("delete", "delete").Arg(0, "recv.sock.surveys").Arg(1, "recv.id")
			r.Check(len(del) == 1 && del[0].Unconditional() && del.AllHeld(survMu), R, "unregisters-id", del.Pos(p), "delete(surveys, id) under the lock", "cancel does not unregister the survey id under the lock")
			cq := cl.Ev("close", "close").Arg(0, "recv.recvQ")
			r.Check(len(cq) == 1 && cq.DominatedBy(del), R, "close-after-unregister", cq.Pos(p), "queue closed after the id was unregistered", "the queue is closed before the survey is unregistered")
			dr := cl.Ev("recv", "recv.recvQ")
			fr := cl.Ev("call", "mangos.(*Message).Free")
			r.Check(len(dr) == 1 && len(fr) == 1 && dr.DominatedBy(cq), R, "drains-queue", dr.Pos(p), "queued responses are drained and freed", "responses still queued when the survey ends are not discarded: Recv after expiry returns stale responses")
			er := cl.Ev("store", "recv.err").Arg(0, "arg1")
			r.Check(len(er) == 1 && (len(cq) == 0 || Sel(cq).DominatedBy(er)), R, "records-cause", er.Pos(p), "the cause is recorded before the queue is closed", "the cause of cancellation is not recorded before the queue closes")
			tm := cl.Ev("call", "time.(*Timer).Stop")
			r.Check(len(tm) == 1, R, "stops-timer", tm.Pos(p), "expiry timer stopped", "cancel does not stop the expiry timer")
		}
	}

	R = "C07.3/start"
	r.Describe(R, "survey.start (socket lock held): fresh queue, id registered, becomes the context's current survey, expiry timer cancels with ErrProtoState")
	st := q.Fn(R, "protocol/surveyor", "survey", "start")
	if st.OK() {
		q.Req(R, "under-lock", p.EntryLocks(st.fn)[survMu], st.Pos(), "always called with the socket lock held", "start can run without the socket lock")
		mu := st.Ev("mapupdate", "recv.sock.surveys")
		r.Check(len(mu) == 1 && mu[0].Args[0] == "recv.id" && mu[0].Args[1] == "recv", R, "registers-own-id", mu.Pos(p), "surveys[id] = s", "the survey is not registered under its own id")
		cs := st.Ev("store", "recv.ctx.surv").Arg(0, "recv")
		r.Check(len(cs) == 1, R, "becomes-current", cs.Pos(p), "ctx.surv = s", "the new survey does not become the context's current survey")
		rq := st.Ev("store", "recv.recvQ")
		r.Check(len(rq) == 1 && strings.HasPrefix(rq[0].Args[0], "make(chan,") && (len(mu) == 0 || Sel(mu).DominatedBy(rq)), R, "queue-before-registration", rq.Pos(p), "queue created before the survey becomes visible", "the survey is registered before its queue exists")
		cl := st.Closure(R, 0)
		if cl.OK() {
			c := cl.Ev("call", "surveyor.(*survey).cancel").Arg(1, "ErrProtoState")
			r.Check(len(c) == 1, R, "expiry-cancels-with-ErrProtoState", c.Pos(p), "expiry => cancel(ErrProtoState)", "expiry does not cancel the survey with ErrProtoState")
		}
		af := st.Ev("call", "time.AfterFunc")
		okT := len(af) == 1 && af[0].Args[0] == "arg2" && af.AllGuarded("arg2 > 0")
		r.Check(okT, "C07.7/timer-from-option", "survey.start/expiry-armed-iff-positive", af.Pos(p), "expiry timer armed only for a positive survey time", "the expiry timer is armed unconditionally from the SURVEY-TIME option: the documented and accepted value 0 (= infinite) makes AfterFunc(0) cancel every survey at once")
	}
	r.Describe("C07.7/timer-from-option", "a timer armed from an option duration for which zero is documented as 'no limit' is guarded by > 0")

	R = "C07.4/send"
	r.Describe(R, "context.SendMsg: id has the top bit; the new survey is started (registered) before the old one is cancelled with ErrCanceled; every pipe of a snapshot of s.pipes gets a Clone by non-blocking send")
	sm := q.Fn(R, "protocol/surveyor", "context", "SendMsg")
	if sm.OK() {
		id := sm.Ev("store", "$complit.id")
		r.Check(len(id) == 1 && strings.HasSuffix(id[0].Args[0], "| 2147483648)"), R, "id-top-bit", id.Pos(p), "id | 0x80000000", "the survey id lacks the top bit")
		stc := sm.Ev("call", "surveyor.(*survey).start")
		okArgs := len(stc) == 1 && stc[0].Args[0] == "$complit" && stc[0].Args[1] == "recv.recvQLen" && stc[0].Args[2] == "recv.survExpire"
		r.Check(okArgs && stc.AllHeld(survMu), R, "starts-new-survey", stc.Pos(p), "start(recvQLen, survExpire) under the lock", "the new survey is not started with the context's queue length and survey time under the lock: "+argsOf(stc))
		oc := sm.Ev("go", "surveyor.(*survey).cancel")
		okOld := len(oc) == 1 && oc[0].Args[1] == "ErrCanceled" && oc.AllGuarded("recv.surv != nil")
		if okOld {
			// the old survey value was read before start replaced it
			okOld = InstrDominates(stc[0].In, oc[0].In)
		}
		r.Check(okOld, R, "abandons-previous", oc.Pos(p), "the previous survey is cancelled with ErrCanceled after the new one is registered", "starting a survey does not abandon the previous one (cancel with ErrCanceled)")
		pu := sm.Ev("call", "binary.(bigEndian).PutUint32")
		r.Check(len(pu) == 1 && pu[0].Args[2] == "$complit.id" && strings.HasSuffix(pu[0].Args[1], ".Header"), R, "header-carries-id", pu.Pos(p), "header = survey id", "the survey header does not carry the survey id")
		// snapshot of all pipes under the lock
		body := fanoutLoop(p, r, R, "snapshot", sm.fn, "recv.s.pipes")
		_ = body
		var snd Sel
		for _, e := range sm.All() {
			if e.Kind == "select-send" && strings.HasSuffix(e.What, ".sendQ") {
				snd = append(snd, e)
			}
		}
		r.Check(len(snd) == 1 && strings.HasSuffix(snd[0].What, "].sendQ") && !strings.HasPrefix(snd[0].What, "recv.s.pipes[") && len(snd[0].Args) == 2 && snd[0].Args[1] == "nonblocking", R, "broadcast-to-snapshot", snd.Pos(p), "non-blocking send to every pipe of the snapshot", "the survey is not offered to every pipe of the snapshot: "+argsOf(snd))
		if len(snd) == 1 {
			fanoutNoBypass(p, r, R, "broadcast", snd[0], nil, "")
		}
		cl := sm.Ev("call", "mangos.(*Message).Clone")
		r.Check(len(cl) == 1 && len(snd) == 1 && cl[0].In.Block() == snd[0].In.Block(), R, "clone-per-pipe", cl.Pos(p), "one Clone per pipe", "not one Clone per pipe")
	}

	{
		R := "C07.19/raw-fanout"
		r.Describe(R, "xsurveyor.SendMsg (what a survey device forwards through): every pipe is visited under the lock with Clone + non-blocking send, only a failed send drops the copy, nothing skips an entry")
		xs := q.Fn(R, "protocol/xsurveyor", "socket", "SendMsg")
		if xs.OK() {
			body := fanoutLoop(p, r, R, "xsurveyor.SendMsg", xs.fn, "recv.pipes")
			fanoutBalanced(p, r, R, "xsurveyor.SendMsg", xs, body, "arg1", ".sendQ")
		}
	}

	R = "C07.9/context-inherits-survey-time"
	r.Describe(R, "a context opened on the socket takes the survey time configured on the socket (the default context's), not a constant: otherwise surveys on that context expire by a deadline the user did not set")
	oc := q.Fn(R, "protocol/surveyor", "socket", "OpenContext")
	if oc.OK() {
		st := oc.Ev("store", "$complit.survExpire")
		r.Check(len(st) == 1 && st[0].Args[0] == "recv.master.survExpire" && len(st[0].Held) > 0, R, "OpenContext/survExpire", st.Pos(p), "survExpire = master.survExpire under the lock", "OpenContext does not take the survey time from the default context under the lock: "+argsOf(st))
	}

	r.Describe("C07.10/send-contract", "a Send that fails (timeout, closed) leaves the survey/response message as the caller passed it, so that the retry is routed by the same header")
	e5SendContracts(p, r, "C07.10/send-contract", func(rel string) bool {
		return rel == "protocol/surveyor" || rel == "protocol/xsurveyor" || rel == "protocol/respondent" || rel == "protocol/xrespondent"
	})

	r.Describe("C07.11/header-split-order", "the survey id / hop word is the first word of the body as it arrived")
	headerSplitOrder(p, r, "C07.11/header-split-order", func(rel string) bool {
		return rel == "protocol/surveyor" || rel == "protocol/xsurveyor" || rel == "protocol/respondent" || rel == "protocol/xrespondent"
	})

	r.Describe("C07.12/unique-sites", "a survey message the application also holds (or sent on another context) is made private before its header is overwritten with this survey's id")
	uniqueSites(p, r, "C07.12/unique-sites", func(rel string) bool { return rel == "protocol/surveyor" })
	r.Describe("C07.13/E5", "message ownership (E5) on the SURVEYOR/RESPONDENT paths")
	ownershipIn(p, r, "C07.13/E5", "protocol/surveyor", "protocol/xsurveyor", "protocol/respondent", "protocol/xrespondent")
	r.Describe("C07.14/raw-routing", "the raw respondent routes a response by the first header word to exactly that pipe (shared with C05.4)")
	c05Raw(p, r, "C07.14/raw-routing", []string{"protocol/xrespondent"})

	R = "C07.5/recv"
	r.Describe(R, "context.RecvMsg: no current survey => ErrProtoState without waiting; a closed queue yields the survey's recorded error")
	rm := q.Fn(R, "protocol/surveyor", "context", "RecvMsg")
	if rm.OK() {
		var ps Sel
		for _, e := range rm.Ev("return", "") {
			if len(e.Args) == 2 && e.Args[1] == "ErrProtoState" {
				ps = append(ps, e)
			}
		}
		var sel Sel
		for _, e := range rm.All() {
			if e.Kind == "select-recv" {
				sel = append(sel, e)
			}
		}
		okNoWait := len(ps) == 1 && ps.AllGuarded("recv.surv == nil") && len(sel) > 0 && !CanPrecede(blockReach(rm.fn), sel[0].In, ps[0].In)
		r.Check(okNoWait, R, "no-survey-ErrProtoState-immediately", ps.Pos(p), "ErrProtoState under surv == nil, before any wait", "Recv with no survey in progress does not fail with ErrProtoState before waiting")
		for _, e := range sel {
			r.Check(hasAtom(e.Guard, "recv.surv != nil"), R, "waits-only-with-survey", p.InstrPos(e.In), "the wait happens only with a current survey", "Recv can block although no survey is in progress")
			break
		}
		var ce Sel
		for _, e := range rm.Ev("return", "") {
			if len(e.Args) == 2 && e.Args[1] == "recv.surv.err" {
				ce = append(ce, e)
			}
		}
		r.Check(len(ce) == 1 && len(ce[0].Guard) > 0 && func() bool {
			for _, a := range ce[0].Guard {
				if strings.HasPrefix(a, "select(<-") && strings.HasSuffix(a, ".recvQ) == nil") {
					return true
				}
			}
			return false
		}(), R, "closed-queue-yields-cause", ce.Pos(p), "a closed survey queue yields surv.err (ErrProtoState after expiry, ErrCanceled when superseded)", "a finished survey does not report its recorded cause")
		rq := rm.Ev("select-recv", "recv.surv.recvQ")
		r.Check(len(rq) == 1, R, "reads-current-survey-queue", rq.Pos(p), "responses are read from the current survey's queue", "Recv does not read from the current survey's queue")
	}
	R = "C07.9/E5"
	r.Describe(R, "message ownership (E5) on the SURVEYOR paths")
	n := 0
	for _, is := range p.E5().issues {
		rel, _ := p.FuncRel(is.Fn)
		if rel == "protocol/surveyor" || rel == "protocol/xsurveyor" {
			n++
			r.Bad(R, p.FuncName(is.Fn)+"/"+is.Kind+"/"+is.What, p.InstrPos(is.In), is.Msg)
		}
	}
	if n == 0 {
		r.OK(R, "surveyor", "-", "no ownership issue on the SURVEYOR paths")
	}
}
