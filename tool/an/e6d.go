package an

import (
	"fmt"
	"go/ast"
	"go/constant"
	"go/token"
	"go/types"
	"sort"
	"strings"

	"golang.org/x/tools/go/cfg"
	"golang.org/x/tools/go/packages"
)

// E6d BUFFER BOUNDS: forward dataflow on go/cfg of a lower bound on len(P) for []byte
// paths P (an identifier or a selector chain such as m.Body), with facts from branch
// edges and updates from reslicing/append/make.  Every constant index, slice bound and
// binary.BigEndian access on such a path needs a sufficient lower bound.

type bfact map[string]int // path -> proven lower bound of len(path); absent = 0

func (f bfact) clone() bfact {
	o := bfact{}
	for k, v := range f {
		o[k] = v
	}
	return o
}

func meetFacts(a, b bfact) bfact {
	o := bfact{}
	for k, v := range a {
		if w, ok := b[k]; ok {
			if w < v {
				v = w
			}
			if v > 0 {
				o[k] = v
			}
		}
	}
	return o
}

func eqFacts(a, b bfact) bool {
	if len(a) != len(b) {
		return false
	}
	for k, v := range a {
		if b[k] != v {
			return false
		}
	}
	return true
}

// BoundUse is one use that needs len(path) >= Need.
type BoundUse struct {
	Fn    string
	Pos   token.Pos
	Path  string
	Need  int
	Have  int
	Expr  string
	Undec string // non-empty: cannot decide (non-constant index)
}

type e6dCtx struct {
	p    *Prog
	pk   *packages.Package
	info *types.Info
	uses []BoundUse
	fn   string
}

func isByteSlice(t types.Type) bool {
	if t == nil {
		return false
	}
	s, ok := t.Underlying().(*types.Slice)
	if !ok {
		return false
	}
	b, ok := s.Elem().Underlying().(*types.Basic)
	return ok && (b.Kind() == types.Byte || b.Kind() == types.Uint8)
}

// pathOf renders an identifier / selector chain with object identity of the root.
func (c *e6dCtx) pathOf(e ast.Expr) (string, bool) {
	switch x := e.(type) {
	case *ast.ParenExpr:
		return c.pathOf(x.X)
	case *ast.Ident:
		obj := c.info.ObjectOf(x)
		if obj == nil {
			return "", false
		}
		if _, ok := obj.(*types.Var); !ok {
			return "", false
		}
		return fmt.Sprintf("%s@%d", x.Name, obj.Pos()), true
	case *ast.SelectorExpr:
		base, ok := c.pathOf(x.X)
		if !ok {
			return "", false
		}
		return base + "." + x.Sel.Name, true
	}
	return "", false
}

func (c *e6dCtx) constInt(e ast.Expr) (int, bool) {
	if tv, ok := c.info.Types[e]; ok && tv.Value != nil && tv.Value.Kind() == constant.Int {
		if v, ok := constant.Int64Val(tv.Value); ok {
			return int(v), true
		}
	}
	return 0, false
}

// lenOf: is e `len(P)`? returns path.
func (c *e6dCtx) lenOf(e ast.Expr) (string, bool) {
	if p, ok := e.(*ast.ParenExpr); ok {
		return c.lenOf(p.X)
	}
	call, ok := e.(*ast.CallExpr)
	if !ok || len(call.Args) != 1 {
		return "", false
	}
	id, ok := call.Fun.(*ast.Ident)
	if !ok || id.Name != "len" {
		return "", false
	}
	if _, isB := c.info.Uses[id].(*types.Builtin); !isB {
		return "", false
	}
	return c.pathOf(call.Args[0])
}

// condFacts: facts implied by cond being true (pol) or false (!pol).
func (c *e6dCtx) condFacts(cond ast.Expr, pol bool, f bfact) {
	switch x := cond.(type) {
	case *ast.ParenExpr:
		c.condFacts(x.X, pol, f)
	case *ast.UnaryExpr:
		if x.Op == token.NOT {
			c.condFacts(x.X, !pol, f)
		}
	case *ast.BinaryExpr:
		op := x.Op
		// short-circuit operators (go/cfg keeps them inside one condition node)
		if op == token.LOR {
			if !pol {
				c.condFacts(x.X, false, f)
				c.condFacts(x.Y, false, f)
			}
			return
		}
		if op == token.LAND {
			if pol {
				c.condFacts(x.X, true, f)
				c.condFacts(x.Y, true, f)
			}
			return
		}
		// relational fact: i < len(P)  (loop conditions)
		if (op == token.LSS && pol) || (op == token.GEQ && !pol) {
			if ip, ok := c.pathOf(x.X); ok {
				if lp, ok := c.lenOf(x.Y); ok {
					f["lt:"+ip+"|"+lp] = 1
				}
			}
		}
		if (op == token.GTR && pol) || (op == token.LEQ && !pol) {
			if ip, ok := c.pathOf(x.Y); ok {
				if lp, ok := c.lenOf(x.X); ok {
					f["lt:"+ip+"|"+lp] = 1
				}
			}
		}
		l, r := x.X, x.Y
		// mirrored form K op len(P)
		if _, ok := c.lenOf(l); !ok {
			if _, ok2 := c.lenOf(r); ok2 {
				l, r = r, l
				switch op {
				case token.LSS:
					op = token.GTR
				case token.GTR:
					op = token.LSS
				case token.LEQ:
					op = token.GEQ
				case token.GEQ:
					op = token.LEQ
				}
			}
		}
		path, ok := c.lenOf(l)
		if !ok {
			return
		}
		k, ok := c.constInt(r)
		if !ok {
			return
		}
		if !pol {
			switch op {
			case token.LSS:
				op = token.GEQ
			case token.GEQ:
				op = token.LSS
			case token.GTR:
				op = token.LEQ
			case token.LEQ:
				op = token.GTR
			case token.EQL:
				op = token.NEQ
			case token.NEQ:
				op = token.EQL
			}
		}
		lb := -1
		switch op {
		case token.GEQ:
			lb = k
		case token.GTR:
			lb = k + 1
		case token.EQL:
			lb = k
		}
		if lb > f[path] {
			f[path] = lb
		}
	}
}

func (c *e6dCtx) kill(f bfact, path string) {
	for k := range f {
		if k == path || strings.HasPrefix(k, path+".") {
			delete(f, k)
			continue
		}
		if strings.HasPrefix(k, "lt:") {
			parts := strings.SplitN(strings.TrimPrefix(k, "lt:"), "|", 2)
			if len(parts) == 2 && (parts[0] == path || parts[1] == path || strings.HasPrefix(parts[1], path+".")) {
				delete(f, k)
			}
		}
	}
}

// valueLB: lower bound of len(e) for a []byte-valued expression under facts f.
func (c *e6dCtx) valueLB(e ast.Expr, f bfact) int {
	switch x := e.(type) {
	case *ast.ParenExpr:
		return c.valueLB(x.X, f)
	case *ast.Ident, *ast.SelectorExpr:
		// a fixed-size array (or pointer to one) has exactly its declared length
		if t := c.info.TypeOf(x); t != nil {
			u := t.Underlying()
			if pt, ok := u.(*types.Pointer); ok {
				u = pt.Elem().Underlying()
			}
			if arr, ok := u.(*types.Array); ok {
				return int(arr.Len())
			}
		}
		if p, ok := c.pathOf(x); ok {
			return f[p]
		}
	case *ast.SliceExpr:
		base := c.valueLB(x.X, f)
		lo := 0
		if x.Low != nil {
			v, ok := c.constInt(x.Low)
			if !ok {
				return 0
			}
			lo = v
		}
		if x.High != nil {
			hi, ok := c.constInt(x.High)
			if !ok {
				return 0
			}
			if hi-lo > 0 {
				return hi - lo
			}
			return 0
		}
		if base-lo > 0 {
			return base - lo
		}
		return 0
	case *ast.CallExpr:
		if id, ok := x.Fun.(*ast.Ident); ok {
			if _, isB := c.info.Uses[id].(*types.Builtin); isB {
				switch id.Name {
				case "make":
					if len(x.Args) >= 2 {
						if v, ok := c.constInt(x.Args[1]); ok {
							return v
						}
					}
					return 0
				case "append":
					if len(x.Args) == 0 {
						return 0
					}
					n := c.valueLB(x.Args[0], f)
					if x.Ellipsis.IsValid() && len(x.Args) == 2 {
						n += c.valueLB(x.Args[1], f)
					} else {
						n += len(x.Args) - 1
					}
					return n
				}
			}
		}
		// conversion []byte("const")
		if tv, ok := c.info.Types[x]; ok && tv.Value != nil && tv.Value.Kind() == constant.String {
			return len(constant.StringVal(tv.Value))
		}
	case *ast.CompositeLit:
		if isByteSlice(c.info.TypeOf(x)) {
			return len(x.Elts)
		}
	}
	return 0
}

// isMessagePtr: expression of type *Message.
func isMessagePtr(t types.Type) bool {
	p, ok := t.(*types.Pointer)
	if !ok {
		return false
	}
	n, ok := p.Elem().(*types.Named)
	if ok {
		return n.Obj().Name() == "Message" && n.Obj().Pkg() != nil && strings.HasPrefix(n.Obj().Pkg().Path(), ModPath)
	}
	if a, ok := p.Elem().(*types.Alias); ok {
		if n, ok := types.Unalias(a).(*types.Named); ok {
			return n.Obj().Name() == "Message"
		}
	}
	return false
}

var bigEndianNeeds = map[string]int{"Uint16": 2, "Uint32": 4, "Uint64": 8, "PutUint16": 2, "PutUint32": 4, "PutUint64": 8}

// scanUses records the bound requirements of every sub-expression of n under facts f.
func (c *e6dCtx) scanUses(n ast.Node, f bfact) {
	ast.Inspect(n, func(x ast.Node) bool {
		switch e := x.(type) {
		case *ast.FuncLit:
			return false // analysed on its own
		case *ast.BinaryExpr:
			// the right operand of || (&&) is evaluated only when the left is false (true)
			if e.Op == token.LOR || e.Op == token.LAND {
				c.scanUses(e.X, f)
				f2 := f.clone()
				c.condFacts(e.X, e.Op == token.LAND, f2)
				c.scanUses(e.Y, f2)
				return false
			}
		case *ast.IndexExpr:
			if !isByteSlice(c.info.TypeOf(e.X)) {
				return true
			}
			path, ok := c.pathOf(e.X)
			if !ok {
				return true
			}
			if k, ok := c.constInt(e.Index); ok {
				c.use(e.Pos(), path, k+1, f, e)
				return true
			}
			// P[len(P)-K]
			if be, ok := e.Index.(*ast.BinaryExpr); ok && be.Op == token.SUB {
				if lp, ok := c.lenOf(be.X); ok && lp == path {
					if k, ok := c.constInt(be.Y); ok {
						c.use(e.Pos(), path, k, f, e)
						return true
					}
				}
			}
			if ip, ok := c.pathOf(e.Index); ok && f["lt:"+ip+"|"+path] == 1 {
				c.uses = append(c.uses, BoundUse{Fn: c.fn, Pos: e.Pos(), Path: path, Need: 1, Have: 1, Expr: types.ExprString(e)})
				return true
			}
			c.undecided(e.Pos(), path, e, "non-constant index")
		case *ast.SliceExpr:
			if !isByteSlice(c.info.TypeOf(e.X)) {
				return true
			}
			path, ok := c.pathOf(e.X)
			if !ok {
				return true
			}
			need := 0
			undec := false
			bound := func(b ast.Expr) {
				if b == nil {
					return
				}
				if k, ok := c.constInt(b); ok {
					if k > need {
						need = k
					}
					return
				}
				// len(P)-K
				if be, ok := b.(*ast.BinaryExpr); ok && be.Op == token.SUB {
					if lp, ok := c.lenOf(be.X); ok && lp == path {
						if k, ok := c.constInt(be.Y); ok {
							if k > need {
								need = k
							}
							return
						}
					}
				}
				if lp, ok := c.lenOf(b); ok && lp == path {
					return
				}
				undec = true
			}
			bound(e.Low)
			bound(e.High)
			if undec {
				c.undecided(e.Pos(), path, e, "non-constant slice bound")
			} else if need > 0 {
				c.use(e.Pos(), path, need, f, e)
			}
		case *ast.CallExpr:
			sel, ok := e.Fun.(*ast.SelectorExpr)
			if !ok {
				return true
			}
			need, ok := bigEndianNeeds[sel.Sel.Name]
			if !ok || len(e.Args) == 0 {
				return true
			}
			// receiver must be a binary.ByteOrder value
			rt := c.info.TypeOf(sel.X)
			if rt == nil || !strings.Contains(rt.String(), "encoding/binary") {
				return true
			}
			arg := e.Args[0]
			if path, ok := c.pathOf(arg); ok {
				c.use(e.Pos(), path, need, f, e)
			} else if have := c.valueLB(arg, f); have < need {
				c.uses = append(c.uses, BoundUse{Fn: c.fn, Pos: e.Pos(), Path: types.ExprString(arg), Need: need, Have: have, Expr: types.ExprString(e)})
			} else {
				c.uses = append(c.uses, BoundUse{Fn: c.fn, Pos: e.Pos(), Path: types.ExprString(arg), Need: need, Have: have, Expr: types.ExprString(e)})
			}
		}
		return true
	})
}

func (c *e6dCtx) use(pos token.Pos, path string, need int, f bfact, e ast.Expr) {
	c.uses = append(c.uses, BoundUse{Fn: c.fn, Pos: pos, Path: path, Need: need, Have: f[path], Expr: types.ExprString(e)})
}

func (c *e6dCtx) undecided(pos token.Pos, path string, e ast.Expr, why string) {
	c.uses = append(c.uses, BoundUse{Fn: c.fn, Pos: pos, Path: path, Expr: types.ExprString(e), Undec: why})
}

// transfer applies one CFG node to the facts (uses are recorded against the facts before
// the node's own effect).
func (c *e6dCtx) transfer(n ast.Node, f bfact, record bool) {
	if record {
		c.scanUses(n, f)
	}
	switch s := n.(type) {
	case *ast.AssignStmt:
		if len(s.Lhs) == len(s.Rhs) {
			// evaluate all RHS first
			vals := make([]int, len(s.Rhs))
			keep := make([]bool, len(s.Rhs))
			for i, r := range s.Rhs {
				vals[i] = -1
				if isByteSlice(c.info.TypeOf(r)) {
					vals[i] = c.valueLB(r, f)
				}
				// m = m.MakeUnique() keeps the facts about m.*
				if call, ok := r.(*ast.CallExpr); ok {
					if sel, ok := call.Fun.(*ast.SelectorExpr); ok && sel.Sel.Name == "MakeUnique" {
						if lp, ok := c.pathOf(s.Lhs[i]); ok {
							if rp, ok := c.pathOf(sel.X); ok && lp == rp {
								keep[i] = true
							}
						}
					}
				}
			}
			for i, l := range s.Lhs {
				path, ok := c.pathOf(l)
				if !ok {
					continue
				}
				if keep[i] {
					continue
				}
				c.kill(f, path)
				if vals[i] > 0 {
					f[path] = vals[i]
				}
			}
		} else {
			for _, l := range s.Lhs {
				if path, ok := c.pathOf(l); ok {
					c.kill(f, path)
				}
			}
		}
	case *ast.IncDecStmt:
		if path, ok := c.pathOf(s.X); ok {
			c.kill(f, path)
		}
	case *ast.RangeStmt:
		for _, l := range []ast.Expr{s.Key, s.Value} {
			if l != nil {
				if path, ok := c.pathOf(l); ok {
					c.kill(f, path)
				}
			}
		}
	case *ast.ValueSpec:
		for i, nm := range s.Names {
			if path, ok := c.pathOf(nm); ok {
				c.kill(f, path)
				if i < len(s.Values) && isByteSlice(c.info.TypeOf(s.Values[i])) {
					if v := c.valueLB(s.Values[i], f); v > 0 {
						f[path] = v
					}
				}
			}
		}
	case *ast.DeclStmt:
		if gd, ok := s.Decl.(*ast.GenDecl); ok {
			for _, sp := range gd.Specs {
				c.transfer(sp, f, false)
			}
		}
	}
	// calls that receive a *Message (other than its own methods) may change its slices
	ast.Inspect(n, func(x ast.Node) bool {
		if _, ok := x.(*ast.FuncLit); ok {
			return false
		}
		call, ok := x.(*ast.CallExpr)
		if !ok {
			return true
		}
		for _, a := range call.Args {
			if t := c.info.TypeOf(a); t != nil && isMessagePtr(t) {
				if path, ok := c.pathOf(a); ok {
					c.kill(f, path+".Body")
					c.kill(f, path+".Header")
				}
			}
		}
		return true
	})
}

func (c *e6dCtx) analyzeBody(name string, body *ast.BlockStmt) {
	if body == nil {
		return
	}
	c.fn = name
	g := cfg.New(body, func(*ast.CallExpr) bool { return true })
	in := make([]bfact, len(g.Blocks))
	visited := make([]bool, len(g.Blocks))
	in[0] = bfact{}
	visited[0] = true
	work := []*cfg.Block{g.Blocks[0]}
	iter := 0
	edgeFacts := func(b *cfg.Block, out bfact, succIdx int) bfact {
		f := out.clone()
		if len(b.Succs) == 2 && len(b.Nodes) > 0 {
			if cond, ok := b.Nodes[len(b.Nodes)-1].(ast.Expr); ok {
				c.condFacts(cond, succIdx == 0, f)
			}
		}
		return f
	}
	for len(work) > 0 && iter < 5000 {
		iter++
		b := work[len(work)-1]
		work = work[:len(work)-1]
		f := in[b.Index].clone()
		for _, n := range b.Nodes {
			c.transfer(n, f, false)
		}
		for i, s := range b.Succs {
			ef := edgeFacts(b, f, i)
			// entering the body of `for k[, v] := range X`: k and v are fresh, and k < len(X)
			if s.Kind == cfg.KindRangeBody {
				if rs, ok := s.Stmt.(*ast.RangeStmt); ok {
					for _, l := range []ast.Expr{rs.Key, rs.Value} {
						if l != nil {
							if path, ok := c.pathOf(l); ok {
								c.kill(ef, path)
							}
						}
					}
					if rs.Key != nil {
						if kp, ok := c.pathOf(rs.Key); ok {
							if xp, ok := c.pathOf(rs.X); ok {
								ef["lt:"+kp+"|"+xp] = 1
							}
						}
					}
				}
			}
			if !visited[s.Index] {
				visited[s.Index] = true
				in[s.Index] = ef
				work = append(work, s)
				continue
			}
			m := meetFacts(in[s.Index], ef)
			if !eqFacts(m, in[s.Index]) {
				in[s.Index] = m
				work = append(work, s)
			}
		}
	}
	// record uses with the converged facts
	for _, b := range g.Blocks {
		if !visited[b.Index] {
			continue
		}
		f := in[b.Index].clone()
		for _, n := range b.Nodes {
			c.transfer(n, f, true)
		}
	}
}

// E6dUses analyses every function (and function literal) of the given packages.
func (p *Prog) E6dUses(rels func(rel string) bool) []BoundUse {
	var all []BoundUse
	for _, pk := range p.SubjectPkgs() {
		rel, _ := Rel(pk.PkgPath)
		if !rels(rel) {
			continue
		}
		c := &e6dCtx{p: p, pk: pk, info: pk.TypesInfo}
		for _, file := range p.SubjectFiles(pk) {
			for _, d := range file.Decls {
				fd, ok := d.(*ast.FuncDecl)
				if !ok || fd.Body == nil {
					continue
				}
				name := fd.Name.Name
				if fd.Recv != nil && len(fd.Recv.List) > 0 {
					name = "(" + types.ExprString(fd.Recv.List[0].Type) + ")." + name
				}
				relName := rel
				if relName == "" {
					relName = "mangos"
				}
				full := relName + "." + name
				c.analyzeBody(full, fd.Body)
				k := 0
				ast.Inspect(fd.Body, func(n ast.Node) bool {
					if fl, ok := n.(*ast.FuncLit); ok {
						k++
						c.analyzeBody(fmt.Sprintf("%s$%d", full, k), fl.Body)
					}
					return true
				})
			}
		}
		all = append(all, c.uses...)
	}
	sort.SliceStable(all, func(i, j int) bool { return all[i].Pos < all[j].Pos })
	return all
}

// stripObj removes the "@pos" object identity from a path for display/keys.
func stripObj(path string) string {
	out := ""
	skip := false
	for _, r := range path {
		if r == '@' {
			skip = true
			continue
		}
		if skip {
			if r >= '0' && r <= '9' {
				continue
			}
			skip = false
		}
		out += string(r)
	}
	return out
}

// LenCheck is a comparison `len(P) < K` (normalised: a message needs len(P) >= L to pass).
type LenCheck struct {
	Fn   string
	Pos  token.Pos
	Path string
	L    int
	Expr string
}

// E6dLenChecks lists the minimum-length tests of the selected packages.
func (p *Prog) E6dLenChecks(rels func(rel string) bool) []LenCheck {
	var out []LenCheck
	for _, pk := range p.SubjectPkgs() {
		rel, _ := Rel(pk.PkgPath)
		if !rels(rel) {
			continue
		}
		c := &e6dCtx{p: p, pk: pk, info: pk.TypesInfo}
		for _, file := range p.SubjectFiles(pk) {
			for _, d := range file.Decls {
				fd, ok := d.(*ast.FuncDecl)
				if !ok || fd.Body == nil {
					continue
				}
				name := fd.Name.Name
				if fd.Recv != nil && len(fd.Recv.List) > 0 {
					name = "(" + types.ExprString(fd.Recv.List[0].Type) + ")." + name
				}
				relName := rel
				if relName == "" {
					relName = "mangos"
				}
				full := relName + "." + name
				ast.Inspect(fd.Body, func(n ast.Node) bool {
					be, ok := n.(*ast.BinaryExpr)
					if !ok {
						return true
					}
					l, r, op := be.X, be.Y, be.Op
					if _, ok := c.lenOf(l); !ok {
						if _, ok2 := c.lenOf(r); ok2 {
							l, r = r, l
							switch op {
							case token.LSS:
								op = token.GTR
							case token.GTR:
								op = token.LSS
							case token.LEQ:
								op = token.GEQ
							case token.GEQ:
								op = token.LEQ
							}
						}
					}
					path, ok := c.lenOf(l)
					if !ok {
						return true
					}
					k, ok := c.constInt(r)
					if !ok {
						return true
					}
					L := -1
					switch op {
					case token.LSS: // len < K rejects => needs len >= K
						L = k
					case token.LEQ:
						L = k + 1
					}
					if L > 0 {
						out = append(out, LenCheck{Fn: full, Pos: be.Pos(), Path: path, L: L, Expr: types.ExprString(be)})
					}
					return true
				})
			}
		}
	}
	return out
}
