package an

import (
	"go/token"
	"go/types"
	"sort"
	"strings"
	"unicode"

	"golang.org/x/tools/go/ssa"
)

// E3 GUARDEDBY: lockset consistency of struct fields (see DESIGN 3.4/E3).

// Access is one read or write of a struct field.
type Access struct {
	Field  *types.Var
	Owner  string // "protocol/xrep.socket"
	Fn     *ssa.Function
	In     ssa.Instruction
	Write  bool
	Locks  map[string]bool // abstract locks held (function-local ∪ entry lockset)
	PrePub bool            // object not yet visible to another goroutine
	Atomic bool
}

type FieldInfo struct {
	Key      string // "protocol/xrep.socket.ttl"
	Field    *types.Var
	Accesses []*Access
	Guard    []string // inferred guard (rule 1 or 2), empty if none
	Rule     int      // 1 writer discipline, 2 majority, 3 none, 0 immutable after publication
	Bad      []*Access
	Excused  []*Access // reads excused by spawn ordering
}

type e3Result struct {
	callers map[*ssa.Function][]ssa.Instruction // synchronous in-module call sites
	open    map[*ssa.Function]bool              // callable from outside / asynchronously
	entry   map[*ssa.Function]map[string]bool
	fields  map[string]*FieldInfo
	keys    []string
}

// EntryLocks returns the abstract locks that are held at every synchronous call site of
// fn (fixpoint); empty for API entry points, goroutine roots and callbacks.
func (p *Prog) EntryLocks(fn *ssa.Function) map[string]bool {
	return p.E3().entry[fn]
}

func lowerName(s string) bool {
	for _, r := range s {
		return unicode.IsLower(r) || r == '_'
	}
	return false
}

func (p *Prog) computeEntry(r *e3Result) {
	e1 := p.E1()
	type site struct {
		caller *ssa.Function
		in     ssa.Instruction
		once   bool
	}
	callers := map[*ssa.Function][]site{}
	open := map[*ssa.Function]bool{} // has an unknown / asynchronous caller
	var fns []*ssa.Function
	for fn := range p.All {
		if p.moduleFunc(fn) && fn.Blocks != nil {
			fns = append(fns, fn)
		}
	}
	sort.Slice(fns, func(i, j int) bool { return fns[i].String() < fns[j].String() })
	// Once.Do(closure) sites are synchronous callers of the closure
	onceTarget := map[*ssa.Function]bool{}
	for _, fn := range fns {
		EachInstr(fn, func(in ssa.Instruction) {
			c := CallOf(in)
			if c == nil {
				return
			}
			if _, isGo := in.(*ssa.Go); isGo {
				return
			}
			if f, _, ok := isOnceDo(c); ok && f != nil {
				if _, isDefer := in.(*ssa.Defer); isDefer {
					open[f] = true
					return
				}
				callers[f] = append(callers[f], site{fn, in, true})
				onceTarget[f] = true
			}
		})
	}
	cg := p.CG()
	for _, fn := range fns {
		n := cg.Nodes[fn]
		nin := 0
		if n != nil {
			for _, e := range n.In {
				caller := e.Caller.Func
				if !p.moduleFunc(caller) {
					if onceTarget[fn] && caller.Pkg != nil && caller.Pkg.Pkg.Path() == "sync" {
						continue // reached through Once.Do: accounted above
					}
					open[fn] = true
					continue
				}
				if e.Site == nil {
					open[fn] = true
					continue
				}
				switch e.Site.(type) {
				case *ssa.Go, *ssa.Defer:
					open[fn] = true
					continue
				}
				if f, _, ok := isOnceDo(e.Site.Common()); ok {
					_ = f
					continue
				}
				nin++
				callers[fn] = append(callers[fn], site{caller, e.Site, false})
			}
		}
		if fn.Parent() == nil && fn.Synthetic == "" && !lowerName(fn.Name()) {
			open[fn] = true // exported: callable by the application
		}
		if fn.Name() == "init" || strings.HasPrefix(fn.Name(), "init#") || fn.Name() == "main" {
			open[fn] = true
		}
	}
	// fixpoint: start from "all locks" (top) and intersect over call sites
	entry := map[*ssa.Function]map[string]bool{}
	top := map[*ssa.Function]bool{}
	for _, fn := range fns {
		if open[fn] || len(callers[fn]) == 0 {
			entry[fn] = map[string]bool{}
		} else {
			top[fn] = true
		}
	}
	for iter := 0; iter < 30; iter++ {
		changed := false
		for _, fn := range fns {
			if open[fn] || len(callers[fn]) == 0 {
				continue
			}
			var acc map[string]bool
			first := true
			for _, s := range callers[fn] {
				if top[s.caller] {
					continue // caller still unconstrained
				}
				cur := map[string]bool{}
				for _, h := range e1.held[s.in] {
					cur[h.Abs] = true
				}
				for k := range entry[s.caller] {
					cur[k] = true
				}
				if s.once {
					cur["once:"+AbsLock(CallOf(s.in).Args[0])] = true
				}
				if first {
					acc = cur
					first = false
				} else {
					for k := range acc {
						if !cur[k] {
							delete(acc, k)
						}
					}
				}
			}
			if first {
				continue
			}
			if top[fn] {
				top[fn] = false
				entry[fn] = acc
				changed = true
			} else if len(acc) != len(entry[fn]) {
				entry[fn] = acc
				changed = true
			}
		}
		if !changed {
			break
		}
	}
	for fn := range top {
		if top[fn] {
			entry[fn] = map[string]bool{} // unreachable cycles: no assumption
		}
	}
	r.entry = entry
	r.callers = map[*ssa.Function][]ssa.Instruction{}
	r.open = open
	for fn, ss := range callers {
		for _, s := range ss {
			r.callers[fn] = append(r.callers[fn], s.in)
		}
	}
}

func isSyncType(t types.Type) bool {
	if p, ok := t.(*types.Pointer); ok {
		t = p.Elem()
	}
	n, ok := t.(*types.Named)
	if !ok || n.Obj().Pkg() == nil {
		return false
	}
	return n.Obj().Pkg().Path() == "sync" || n.Obj().Pkg().Path() == "sync/atomic"
}

// freshRoot: the access's base object was allocated in this function.
func freshRoot(v ssa.Value) *ssa.Alloc {
	for i := 0; i < 20; i++ {
		switch x := v.(type) {
		case *ssa.FieldAddr:
			v = x.X
			continue
		case *ssa.Alloc:
			if allocSource(x) == nil {
				// either a heap allocation (&T{}) or a local struct variable
				return x
			}
			return nil
		}
		break
	}
	return nil
}

// escapePoints: instructions after which the object a value points to may be visible
// to another goroutine.  A store into a field of another not-yet-published fresh object
// is not an escape by itself; the escapes of that object count instead.
func escapePoints(a ssa.Value) []ssa.Instruction { return escapesOf(a, 0, map[ssa.Value]bool{}) }

func escapesOf(a ssa.Value, depth int, seen map[ssa.Value]bool) []ssa.Instruction {
	var out []ssa.Instruction
	if depth > 4 {
		return out
	}
	var walk func(v ssa.Value)
	walk = func(v ssa.Value) {
		if seen[v] {
			return
		}
		seen[v] = true
		refs := v.Referrers()
		if refs == nil {
			return
		}
		for _, ref := range *refs {
			switch x := ref.(type) {
			case *ssa.Store:
				if x.Val != v {
					continue
				}
				if cell, ok := x.Addr.(*ssa.Alloc); ok {
					// a local variable cell: its loads are aliases, capturing it publishes
					for _, cr := range *cell.Referrers() {
						switch y := cr.(type) {
						case *ssa.UnOp:
							walk(y)
						case *ssa.MakeClosure:
							out = append(out, y)
						}
					}
					continue
				}
				root, _ := RootOf(x.Addr)
				if b, ok := root.(*ssa.Alloc); ok && allocSource(b) == nil {
					if b != a {
						out = append(out, escapesOf(b, depth+1, seen)...)
					}
					continue
				}
				out = append(out, x)
			case *ssa.MapUpdate:
				if x.Map == v {
					continue // v is the map being filled: an access, not an escape of v
				}
				root, _ := RootOf(x.Map)
				if mm, ok := root.(*ssa.MakeMap); ok {
					// put into a map built in this function: published when the map is
					walk(mm)
					continue
				}
				if b, ok := root.(*ssa.Alloc); ok && allocSource(b) == nil {
					if b != a {
						out = append(out, escapesOf(b, depth+1, seen)...)
					}
					continue
				}
				out = append(out, x)
			case *ssa.FieldAddr, *ssa.IndexAddr:
				// address of a part: accesses, not escapes
			case *ssa.UnOp:
				// load
			case *ssa.MakeInterface:
				walk(x)
			case *ssa.ChangeType:
				walk(x)
			case *ssa.ChangeInterface:
				walk(x)
			case *ssa.Phi:
				walk(x)
			case *ssa.MakeClosure:
				out = append(out, x)
			case ssa.CallInstruction:
				c := x.Common()
				if lo := classifyLockCall(c); lo != nil {
					continue
				}
				if CalleeIs(c, "sync", "", "NewCond") {
					continue // only stores the Locker
				}
				// a private constructor that only links the object into another object it
				// builds and returns: the object is as published as that result is
				if callee := c.StaticCallee(); callee != nil && len(callee.Blocks) > 0 && depth < 3 && !c.IsInvoke() {
					if _, isGo := x.(*ssa.Go); !isGo {
						inner := false
						for i, arg := range c.Args {
							if arg == v && i < len(callee.Params) {
								if len(escapesOf(callee.Params[i], depth+1, map[ssa.Value]bool{})) > 0 {
									inner = true
								}
							}
						}
						if !inner {
							if cv, ok := x.(ssa.Value); ok {
								walk(cv)
							}
							continue
						}
					}
				}
				out = append(out, x)
			case *ssa.Send:
				out = append(out, x)
			case *ssa.Return:
				// returning publishes only after the function ends
			default:
				_ = x
			}
		}
	}
	walk(a)
	return out
}

// paramFresh: the access root is parameter i of a helper that is only ever called
// (statically) with a fresh, not yet published object, and the access precedes every
// escape of that object inside the helper (survey.start filling recvQ).
func (p *Prog) paramFresh(r *e3Result, fn *ssa.Function, fa ssa.Value, in ssa.Instruction, reach [][]bool) bool {
	root, _ := RootOf(fa)
	par, ok := root.(*ssa.Parameter)
	if !ok || r.open[fn] || len(r.callers[fn]) == 0 {
		return false
	}
	idx := -1
	for i, pp := range fn.Params {
		if pp == par {
			idx = i
		}
	}
	if idx < 0 {
		return false
	}
	for _, e := range escapePoints(par) {
		if e != in && CanPrecede(reach, e, in) {
			return false
		}
	}
	for _, site := range r.callers[fn] {
		c := CallOf(site)
		if c == nil || c.StaticCallee() != fn || idx >= len(c.Args) {
			return false
		}
		al := freshRoot(c.Args[idx])
		if al == nil {
			if a2, ok := c.Args[idx].(*ssa.Alloc); ok && allocSource(a2) == nil {
				al = a2
			}
		}
		if al == nil {
			return false
		}
		creach := blockReach(site.Parent())
		for _, e := range escapePoints(al) {
			if e != site && CanPrecede(creach, e, site) {
				return false
			}
		}
	}
	return true
}

func isAtomicCall(c *ssa.CallCommon) bool {
	fn := c.StaticCallee()
	if fn == nil {
		return false
	}
	var pk *types.Package
	if fn.Pkg != nil {
		pk = fn.Pkg.Pkg
	} else if o := fn.Object(); o != nil {
		pk = o.Pkg()
	}
	return pk != nil && pk.Path() == "sync/atomic"
}

// E3 computes field accesses with locksets and the inferred guard table.
func (p *Prog) E3() *e3Result {
	if p.e3 != nil {
		return p.e3
	}
	r := &e3Result{fields: map[string]*FieldInfo{}}
	p.e3 = r
	p.computeEntry(r)
	e1 := p.E1()

	for _, fn := range p.Funcs {
		reach := blockReach(fn)
		escCache := map[*ssa.Alloc][]ssa.Instruction{}
		_ = escCache
		add := func(fa ssa.Value, in ssa.Instruction, write, atomic bool) {
			fv := FieldVar(fa)
			if fv == nil || fv.Pkg() == nil {
				return
			}
			rel, ok := Rel(fv.Pkg().Path())
			if !ok || !subjectRel(rel) {
				return
			}
			if isSyncType(fv.Type()) {
				return
			}
			var base ssa.Value
			switch x := fa.(type) {
			case *ssa.FieldAddr:
				base = x.X
			case *ssa.Field:
				base = x.X
			}
			n := namedOf(base.Type())
			if n == nil {
				return
			}
			key := TypeKey(n) + "." + fv.Name()
			fi := r.fields[key]
			if fi == nil {
				fi = &FieldInfo{Key: key, Field: fv}
				r.fields[key] = fi
			}
			a := &Access{Field: fv, Owner: TypeKey(n), Fn: fn, In: in, Write: write, Atomic: atomic, Locks: map[string]bool{}}
			for _, h := range e1.held[in] {
				a.Locks[h.Abs] = true
			}
			for k := range r.entry[fn] {
				a.Locks[k] = true
			}
			if al := freshRoot(fa); al != nil {
				esc, ok := escCache[al]
				if !ok {
					esc = escapePoints(al)
					escCache[al] = esc
				}
				pre := true
				for _, e := range esc {
					if e == in {
						continue
					}
					if CanPrecede(reach, e, in) {
						pre = false
						break
					}
				}
				a.PrePub = pre
			} else if write && p.paramFresh(r, fn, fa, in, reach) {
				a.PrePub = true
			}
			fi.Accesses = append(fi.Accesses, a)
		}
		EachInstr(fn, func(in ssa.Instruction) {
			switch x := in.(type) {
			case *ssa.Store:
				if fa, ok := x.Addr.(*ssa.FieldAddr); ok {
					add(fa, in, true, false)
				}
			case *ssa.UnOp:
				if x.Op == token.MUL {
					if fa, ok := x.X.(*ssa.FieldAddr); ok {
						add(fa, in, false, false)
					}
				}
			case *ssa.Field:
				// read of a field of a struct value (already loaded): the load of the
				// struct is the access; ignore
			case *ssa.MapUpdate:
				if l, ok := x.Map.(*ssa.UnOp); ok && l.Op == token.MUL {
					if fa, ok := l.X.(*ssa.FieldAddr); ok {
						add(fa, in, true, false)
					}
				}
			case ssa.CallInstruction:
				c := x.Common()
				if IsBuiltin(c, "delete") && len(c.Args) > 0 {
					if l, ok := c.Args[0].(*ssa.UnOp); ok && l.Op == token.MUL {
						if fa, ok := l.X.(*ssa.FieldAddr); ok {
							add(fa, in, true, false)
						}
					}
				}
				if isAtomicCall(c) && len(c.Args) > 0 {
					if fa, ok := c.Args[0].(*ssa.FieldAddr); ok {
						add(fa, in, strings.HasPrefix(c.StaticCallee().Name(), "Load") == false, true)
					}
				}
			}
		})
	}
	for k := range r.fields {
		r.keys = append(r.keys, k)
	}
	sort.Strings(r.keys)
	for _, k := range r.keys {
		fi := r.fields[k]
		p.decideField(fi)
		var keep []*Access
		for _, a := range fi.Bad {
			if !a.Write && p.spawnOrdered(fi, a) {
				fi.Excused = append(fi.Excused, a)
				continue
			}
			keep = append(keep, a)
		}
		fi.Bad = keep
	}
	return r
}

// spawnOrdered: a read inside a goroutine function whose every spawn (`go`) is dominated
// by every post-publication write to the field, all of which are in the spawning function
// (the accept loops reading l.listener set just before `go`).
func (p *Prog) spawnOrdered(fi *FieldInfo, a *Access) bool {
	g := a.Fn
	n := p.CG().Nodes[g]
	if n == nil || len(n.In) == 0 {
		return false
	}
	var writes []*Access
	for _, w := range fi.Accesses {
		if w.Write && !w.PrePub {
			writes = append(writes, w)
		}
	}
	if len(writes) == 0 {
		return false
	}
	for _, e := range n.In {
		goSite, ok := e.Site.(*ssa.Go)
		if !ok {
			return false
		}
		h := goSite.Parent()
		for _, w := range writes {
			if w.Fn == h {
				if !InstrDominates(w.In, goSite) {
					return false
				}
				continue
			}
			// the write sits in a single-use private helper that h calls before the spawn
			ok := false
			if p.singleUse(w.Fn) {
				EachInstr(h, func(in ssa.Instruction) {
					if c := CallOf(in); c != nil && c.StaticCallee() == w.Fn {
						if _, isGo := in.(*ssa.Go); !isGo && InstrDominates(in, goSite) {
							ok = true
						}
					}
				})
			}
			if !ok {
				return false
			}
		}
	}
	return true
}

func (p *Prog) decideField(fi *FieldInfo) {
	var post []*Access
	allAtomic := true
	for _, a := range fi.Accesses {
		if !a.Atomic {
			allAtomic = false
		}
		if !a.PrePub {
			post = append(post, a)
		}
	}
	if allAtomic {
		fi.Rule = 0
		return
	}
	var writes []*Access
	for _, a := range post {
		if a.Write {
			writes = append(writes, a)
		}
	}
	if len(writes) == 0 {
		fi.Rule = 0 // immutable after publication
		return
	}
	// rule 1: writer discipline
	inter := map[string]bool{}
	for k := range writes[0].Locks {
		inter[k] = true
	}
	for _, w := range writes[1:] {
		for k := range inter {
			if !w.Locks[k] {
				delete(inter, k)
			}
		}
	}
	// once pseudo-locks do not guard data against readers outside the once
	for k := range inter {
		if strings.HasPrefix(k, "once:") {
			delete(inter, k)
		}
	}
	if len(inter) > 0 {
		fi.Rule = 1
		for k := range inter {
			fi.Guard = append(fi.Guard, k)
		}
		sort.Strings(fi.Guard)
		for _, a := range post {
			if a.Write {
				continue
			}
			ok := false
			for k := range inter {
				if a.Locks[k] {
					ok = true
				}
			}
			if !ok {
				fi.Bad = append(fi.Bad, a)
			}
		}
		return
	}
	// rule 2: majority lock
	cnt := map[string]int{}
	for _, a := range post {
		for k := range a.Locks {
			if !strings.HasPrefix(k, "once:") {
				cnt[k]++
			}
		}
	}
	best, bestN := "", 0
	var ks []string
	for k := range cnt {
		ks = append(ks, k)
	}
	sort.Strings(ks)
	for _, k := range ks {
		if cnt[k] > bestN {
			best, bestN = k, cnt[k]
		}
	}
	if bestN*2 > len(post) {
		fi.Rule = 2
		fi.Guard = []string{best}
		for _, a := range post {
			if !a.Locks[best] {
				fi.Bad = append(fi.Bad, a)
			}
		}
		return
	}
	fi.Rule = 3
}
