package an

import (
	"fmt"
	"go/constant"
	"go/types"
	"sort"
	"strings"

	"golang.org/x/tools/go/ssa"
)

func init() {
	register(&PropInfo{ID: "C15", Run: runC15,
		Explanation: "wire image of the SP handshake derived from the header struct type, its literal and the byte order; acceptance predicate of the handshake compared with the specification on a finite domain; protocol number/name tables of all protocol packages against the SP numbers and pairwise; stream framing (length prefix, IPC type byte, order of segments, complete reads); websocket sub-protocol names and binary frames; who may run the handshake.",
		Assumptions: commonAssumptions})
}

var spNumbers = map[string]int64{"pair": 16, "pair1": 17, "pub": 32, "sub": 33, "req": 48, "rep": 49, "push": 80, "pull": 81, "surveyor": 98, "respondent": 99, "bus": 112, "star": 1600}
var spPeer = map[string]string{"pair": "pair", "pair1": "pair1", "pub": "sub", "sub": "pub", "req": "rep", "rep": "req", "push": "pull", "pull": "push", "surveyor": "respondent", "respondent": "surveyor", "bus": "bus", "star": "star"}

func protoTables(p *Prog, r *Report, R string) {
	n := 0
	type info struct {
		self, peer         int64
		selfName, peerName string
	}
	infos := map[string]info{}
	var rels []string
	for _, pk := range p.SubjectPkgs() {
		rel, _ := Rel(pk.PkgPath)
		if !strings.HasPrefix(rel, "protocol/") {
			continue
		}
		sc := pk.Types.Scope()
		get := func(nm string) (constant.Value, bool) {
			c, ok := sc.Lookup(nm).(*types.Const)
			if !ok {
				return nil, false
			}
			return c.Val(), true
		}
		sv, ok1 := get("Self")
		pv, ok2 := get("Peer")
		sn, ok3 := get("SelfName")
		pn, ok4 := get("PeerName")
		if !(ok1 && ok2 && ok3 && ok4) {
			continue
		}
		n++
		var in info
		in.self, _ = constant.Int64Val(sv)
		in.peer, _ = constant.Int64Val(pv)
		in.selfName, in.peerName = constant.StringVal(sn), constant.StringVal(pn)
		infos[rel] = in
		rels = append(rels, rel)
	}
	sort.Strings(rels)
	for _, rel := range rels {
		in := infos[rel]
		base := strings.TrimPrefix(rel, "protocol/")
		cooked := strings.TrimPrefix(base, "x")
		if _, ok := spNumbers[base]; ok {
			cooked = base
		}
		want, known := spNumbers[cooked]
		pos := "-"
		if !known {
			r.Bad(R, rel+"/known-pattern", pos, "protocol package "+rel+" is not one of the SP patterns in the table")
			continue
		}
		r.Check(in.self == want, R, rel+"/Self", pos, fmt.Sprintf("Self = %d", want), fmt.Sprintf("%s announces protocol number %d, the SP number of %s is %d: every handshake with a conforming peer fails", rel, in.self, cooked, want))
		r.Check(in.peer == spNumbers[spPeer[cooked]], R, rel+"/Peer", pos, fmt.Sprintf("Peer = %d", spNumbers[spPeer[cooked]]), fmt.Sprintf("%s expects peer number %d, the peer of %s is %s (%d)", rel, in.peer, cooked, spPeer[cooked], spNumbers[spPeer[cooked]]))
		r.Check(in.selfName == cooked, R, rel+"/SelfName", pos, "SelfName = "+cooked, fmt.Sprintf("%s uses the name %q, expected %q (websocket sub-protocol name)", rel, in.selfName, cooked))
		r.Check(in.peerName == spPeer[cooked], R, rel+"/PeerName", pos, "PeerName = "+spPeer[cooked], fmt.Sprintf("%s names its peer %q, expected %q", rel, in.peerName, spPeer[cooked]))
		// Info() returns exactly these constants
		fn := p.Func(rel, "socket", "Info")
		if fn != nil && p.InScope(fn) {
			vals := map[string]string{}
			for _, e := range p.Events(fn) {
				if e.Kind == "store" {
					vals[fieldSuffix(e.What)] = e.Args[0]
				}
			}
			okI := vals["Self"] == fmt.Sprint(in.self) && vals["Peer"] == fmt.Sprint(in.peer) && vals["SelfName"] == fmt.Sprintf("%q", in.selfName) && vals["PeerName"] == fmt.Sprintf("%q", in.peerName)
			r.Check(okI, R, rel+"/Info", p.Pos(fn.Pos()), "Info() returns Self/Peer/SelfName/PeerName", fmt.Sprintf("Info() does not return the package constants: %v", vals))
		}
	}
	r.Count("c15.protocol_packages", n)
	r.Floor(R, "c15.protocol_packages", 17)
}

func runC15(p *Prog, r *Report) {
	connConfiguration(p, r, "C15.13/conn-configuration")
	stdConfigFields(p, r, "C15.14/std-config-fields")
	r.Floor("C15.14/std-config-fields", "c15.std_config_field_stores", 5)
	r.Floor("C15.13/conn-configuration", "c15.conn_method_calls", 10)
	frameBuffersLocal(p, r, "C15.12/frame-buffers-local")
	r.Floor("C15.12/frame-buffers-local", "frame_buffers.C15.12/frame-buffers-local", 2)
	r.Describe("C15.8/header-split-order", "receivers that split the leading word(s) of the body into the header take the header first, then advance the body")
	headerSplitOrder(p, r, "C15.8/header-split-order", func(rel string) bool { return strings.HasPrefix(rel, "protocol/") })
	r.Floor("C15.8/header-split-order", "wire.header_splits", 2)
	r.Describe("C15.1/handshake-image", "the bytes sent are 00 'S' 'P' 00 <Self big-endian 16> 00 00, derived from the struct layout, the literal and the byte order; read back the same way; sent before waiting")
	handshakeImage(p, r, "C15.1/handshake-image")
	r.Describe("C15.2/handshake-validation", "success iff all six header fields have their required value; failures close the connection and are never reported as ErrClosed; only the handshaker's worker runs the handshake")
	handshakeValidation(p, r, "C15.2/handshake-validation")
	r.Describe("C15.3/protocol-tables", "protocol numbers and names of every protocol package equal the SP numbers, peers are mutual, Info() returns them")
	protoTables(p, r, "C15.3/protocol-tables")
	r.Describe("C15.4/framing", "stream frames are [0x01 for IPC] ‖ BE-uint64(len(Header)+len(Body)) ‖ Header ‖ Body, written at once and read with complete reads into Body[0:sz]")
	framingRules(p, r, "C15.4/framing")
	r.Describe("C15.5/websocket", "one binary frame per message with payload Header‖Body; sub-protocol <name>.sp.nanomsg.org offered by the dialer (peer name), required and answered by the listener (own name), checked before the upgrade")
	wsRules(p, r, "C15.5/websocket")
	r.Describe("C15.6/handshaker", "every new stream connection is handshaken on its own goroutine; late or failed handshakes are closed")
	handshakerRules(p, r, "C15.6/handshaker")
}

// connConfiguration (C15.13): the transports call, on the operating system's connections and
// listeners, only methods that move bytes, close, or describe the endpoint — plus the three
// TCP knobs that do not change what arrives (no-delay, keep-alive).  Anything else on that
// surface changes the stream a peer sees: SO_LINGER 0 turns Close into a reset that discards
// what Send has already reported as written, a deadline turns a slow peer into a truncated
// frame, CloseWrite/CloseRead half-close under the other direction.
var connMethodsAllowed = map[string]bool{
	"Read": true, "Write": true, "Close": true, "LocalAddr": true, "RemoteAddr": true, "Addr": true,
	"Accept": true, "AcceptTCP": true, "AcceptUnix": true, "ConnectionState": true, "File": true,
	"SetNoDelay": true, "SetKeepAlive": true, "SetKeepAlivePeriod": true, "SetUnlinkOnClose": true,
	"String": true, "Network": true, "Handshake": true, "HandshakeContext": true, "SyscallConn": true,
	"ReadFrom": true, "WriteTo": true, "NetConn": true,
}

func connConfiguration(p *Prog, r *Report, R string) {
	r.Describe(R, "on net / crypto/tls connections and listeners the transports call only methods that move bytes, close, describe the endpoint, or set no-delay / keep-alive: no linger, deadline, buffer-size or half-close call (each changes what the peer receives for a frame that Send reported as written)")
	n := 0
	per := map[string]int{}
	for _, fn := range p.Funcs {
		rel, _ := p.FuncRel(fn)
		if !(strings.HasPrefix(rel, "transport") || rel == "internal/core") {
			continue
		}
		EachInstr(fn, func(in ssa.Instruction) {
			c := CallOf(in)
			if c == nil {
				return
			}
			name, recv := "", ""
			if c.IsInvoke() {
				tn := typeShort(c.Value.Type())
				if !(strings.HasPrefix(tn, "net.") || strings.HasPrefix(tn, "tls.")) {
					return
				}
				name, recv = c.Method.Name(), tn
			} else if sc := c.StaticCallee(); sc != nil && sc.Signature.Recv() != nil {
				pk := pkgPathOf(sc)
				if pk != "net" && pk != "crypto/tls" {
					return
				}
				rt := recvTypeName(sc)
				if !(strings.HasSuffix(rt, "Conn") || strings.HasSuffix(rt, "Listener") || rt == "conn") {
					return
				}
				name, recv = sc.Name(), pk+"."+rt
			} else {
				return
			}
			n++
			key := p.FuncName(fn) + "/" + recv + "." + name
			per[key]++
			if per[key] > 1 {
				return
			}
			r.Check(connMethodsAllowed[name], R, key, p.InstrPos(in), "moves bytes, closes, describes the endpoint or sets no-delay/keep-alive",
				recv+"."+name+" changes how the operating system delivers or discards the bytes of frames already written (linger/deadline/buffer/half-close): a frame that Send reported as sent can reach the peer truncated, or not at all")
		})
	}
	r.Count("c15.conn_method_calls", n)
}

// stdConfigFields (C15.14): the fields the transports set in the standard library's and
// gorilla's configuration structs.  The set is closed: a field outside it changes how
// connections are made or kept (an absolute Deadline computed when the dialer is created makes
// every dial after that moment fail at once; a Control hook or LocalAddr pins the socket).
var stdConfigAllowed = map[string]bool{
	"net.Dialer.KeepAlive": true, "net.Dialer.Timeout": true,
	"net.ListenConfig.KeepAlive":    true,
	"websocket.Dialer.Subprotocols": true, "websocket.Dialer.TLSClientConfig": true,
	"websocket.Upgrader.Subprotocols": true, "websocket.Upgrader.CheckOrigin": true,
	"http.Server.Addr": true, "http.Server.Handler": true,
	"tls.Config.ClientAuth": true, "tls.Config.InsecureSkipVerify": true, "tls.Config.RootCAs": true, "tls.Config.Certificates": true, "tls.Config.ClientCAs": true, "tls.Config.ServerName": true, "tls.Config.MinVersion": true,
}

func stdConfigFields(p *Prog, r *Report, R string) {
	r.Describe(R, "the fields the transports (and macat) set in net.Dialer, net.ListenConfig, tls.Config, http.Server and gorilla's Dialer/Upgrader are from a closed list (keep-alive, timeout, sub-protocols, TLS material, handler): no absolute Deadline, Control hook, LocalAddr or buffer size")
	n := 0
	seen := map[string]bool{}
	for _, fn := range p.Funcs {
		rel, _ := p.FuncRel(fn)
		if !(strings.HasPrefix(rel, "transport") || rel == "internal/core" || rel == "macat") {
			continue
		}
		EachInstr(fn, func(in ssa.Instruction) {
			st, ok := in.(*ssa.Store)
			if !ok {
				return
			}
			fa, ok := st.Addr.(*ssa.FieldAddr)
			if !ok {
				return
			}
			fv, owner := fieldAddrVar(fa)
			if fv == nil || owner == nil || owner.Obj().Pkg() == nil {
				return
			}
			pk := owner.Obj().Pkg().Path()
			switch pk {
			case "net", "crypto/tls", "net/http", "github.com/gorilla/websocket":
			default:
				return
			}
			short := pk[strings.LastIndex(pk, "/")+1:]
			name := short + "." + owner.Obj().Name() + "." + fv.Name()
			n++
			key := p.FuncName(fn) + "/" + name
			if seen[key] {
				return
			}
			seen[key] = true
			r.Check(stdConfigAllowed[name], R, key, p.InstrPos(in), "a field of the closed list", name+" is set here and is not one of the configuration fields the transports are known to need: it changes how every later connection is made (an absolute Deadline fixed when the dialer is created fails every dial after it; Control/LocalAddr pin the socket)")
		})
	}
	r.Count("c15.std_config_field_stores", n)
}
