package an

import (
	"fmt"
	"go/token"
	"go/types"
	"sort"
	"strings"

	"golang.org/x/tools/go/ssa"
)

// E12 NILSAFE: the two constructs of the crash surface that E6d (indexing) and C16.12
// (explicit panics, unchecked assertions) leave out and that panic by themselves:
//
//	E12a  an assignment into a map that is nil ("assignment to entry in nil map");
//	E12b  a use through a pointer / interface / function valued struct field that the module
//	      itself treats as possibly nil (it compares the field with nil somewhere, or stores
//	      nil into it) at a place where nothing says it is not nil.
//
// Both quantify over every in-scope function.  They are decided per field (struct type +
// field name), from all stores to the field in the module and all creations of the struct:
// the code already says which fields are optional (the nil tests) and where maps are made.

type e12Field struct {
	key     string // pkg.Type.field
	v       *types.Var
	owner   *types.Named
	stores  []*ssa.Store // all stores to the field in the module (subject functions)
	nilTest []ssa.Instruction
}

type e12Result struct {
	closedFields map[*types.Var]bool // channel fields that some close(…) takes directly
	fields       map[*types.Var]*e12Field
	allocs       map[*types.Named][]*ssa.Alloc // creations of the struct in subject functions
}

func fieldAddrVar(v ssa.Value) (*types.Var, *types.Named) {
	fa, ok := v.(*ssa.FieldAddr)
	if !ok {
		return nil, nil
	}
	st := derefStruct(fa.X.Type())
	if st == nil {
		return nil, nil
	}
	n := namedOf(fa.X.Type())
	return st.Field(fa.Field), n
}

// loadedField: v is a load of a struct field (directly, or through ssa.Field on a struct value).
func loadedField(v ssa.Value) (*types.Var, *types.Named, ssa.Value) {
	switch x := v.(type) {
	case *ssa.UnOp:
		if x.Op == token.MUL {
			if fv, n := fieldAddrVar(x.X); fv != nil {
				return fv, n, x.X.(*ssa.FieldAddr).X
			}
		}
	case *ssa.Field:
		if st, ok := x.X.Type().Underlying().(*types.Struct); ok {
			return st.Field(x.Field), namedOf(x.X.Type()), x.X
		}
	}
	return nil, nil, nil
}

func (p *Prog) e12() *e12Result {
	if p.e12c != nil {
		return p.e12c
	}
	r := &e12Result{fields: map[*types.Var]*e12Field{}, allocs: map[*types.Named][]*ssa.Alloc{}, closedFields: map[*types.Var]bool{}}
	p.e12c = r
	get := func(fv *types.Var, n *types.Named) *e12Field {
		f := r.fields[fv]
		if f == nil {
			k := fv.Name()
			if n != nil {
				k = TypeKey(n) + "." + fv.Name()
			}
			f = &e12Field{key: k, v: fv, owner: n}
			r.fields[fv] = f
		}
		return f
	}
	for _, fn := range p.Funcs {
		EachInstr(fn, func(in ssa.Instruction) {
			switch x := in.(type) {
			case *ssa.Store:
				if fv, n := fieldAddrVar(x.Addr); fv != nil {
					f := get(fv, n)
					f.stores = append(f.stores, x)
				}
			case *ssa.Alloc:
				if pt, ok := x.Type().(*types.Pointer); ok {
					if n, ok := types.Unalias(pt.Elem()).(*types.Named); ok {
						if _, ok := n.Underlying().(*types.Struct); ok {
							r.allocs[n] = append(r.allocs[n], x)
						}
					}
				}
			case *ssa.Call:
				if IsBuiltin(&x.Call, "close") && len(x.Call.Args) == 1 {
					if fv, _, _ := loadedField(x.Call.Args[0]); fv != nil {
						r.closedFields[fv] = true
					}
				}
			case *ssa.BinOp:
				if x.Op != token.EQL && x.Op != token.NEQ {
					return
				}
				var o ssa.Value
				if IsNilConst(x.Y) {
					o = x.X
				} else if IsNilConst(x.X) {
					o = x.Y
				}
				if o == nil {
					return
				}
				if fv, n, _ := loadedField(o); fv != nil {
					f := get(fv, n)
					f.nilTest = append(f.nilTest, in)
				}
			}
		})
	}
	return r
}

// nonNilMapValue: v is certainly a non-nil map (made here, or a merge of such).
func nonNilMapValue(v ssa.Value, seen map[ssa.Value]bool) bool {
	if seen[v] {
		return true
	}
	seen[v] = true
	switch x := v.(type) {
	case *ssa.MakeMap:
		return true
	case *ssa.MakeChan:
		return true
	case *ssa.Phi:
		for _, e := range x.Edges {
			if !nonNilMapValue(e, seen) {
				return false
			}
		}
		return true
	case *ssa.ChangeType:
		return nonNilMapValue(x.X, seen)
	case *ssa.Call:
		// a module function all of whose returns are non-nil maps
		if sc := x.Call.StaticCallee(); sc != nil && len(sc.Blocks) > 0 {
			ok := true
			n := 0
			EachInstr(sc, func(in ssa.Instruction) {
				if rt, isRet := in.(*ssa.Return); isRet && len(rt.Results) == 1 {
					n++
					if !nonNilMapValue(rt.Results[0], seen) {
						ok = false
					}
				}
			})
			return ok && n > 0
		}
	}
	return false
}

// allocInitialises: the creation a of struct T stores a non-nil map into field fv before the
// function returns or publishes: a store to a.fv of a made map that dominates every return of
// the function (composite literals store right after the Alloc).
func (p *Prog) allocInitialises(a *ssa.Alloc, fv *types.Var) bool {
	fn := a.Parent()
	var st []*ssa.Store
	// field addresses rooted at the allocation, through value-embedded structs
	var visit func(v ssa.Value, depth int)
	visit = func(v ssa.Value, depth int) {
		if depth > 3 || v.Referrers() == nil {
			return
		}
		for _, ref := range *v.Referrers() {
			fa, ok := ref.(*ssa.FieldAddr)
			if !ok || fa.X != v {
				continue
			}
			if fv2, _ := fieldAddrVar(fa); fv2 == fv {
				for _, r2 := range *fa.Referrers() {
					if s, ok := r2.(*ssa.Store); ok && s.Addr == fa && nonNilMapValue(s.Val, map[ssa.Value]bool{}) {
						st = append(st, s)
					}
				}
			} else if _, isStruct := fa.Type().(*types.Pointer).Elem().Underlying().(*types.Struct); isStruct {
				visit(fa, depth+1)
			}
		}
	}
	visit(a, 0)
	reach := blockReach(fn)
	// ... or a method of the object that makes the field on all its paths is called on it
	// before anything else can get hold of the object (`n := &survey{…}; …; n.start(…)`, where
	// start makes the queue and is what publishes the survey)
	// receivers that stand for the new object: the allocation itself, or a struct embedded in it
	// by value (`p := new(connipc); p.conn.setup(…)`)
	recvs := map[ssa.Value]bool{a: true}
	for _, ref := range *a.Referrers() {
		if fa, ok := ref.(*ssa.FieldAddr); ok && fa.X == ssa.Value(a) {
			if _, isStruct := fa.Type().(*types.Pointer).Elem().Underlying().(*types.Struct); isStruct {
				recvs[fa] = true
			}
		}
	}
	var calls []*ssa.Call
	for rv := range recvs {
		if rv.Referrers() == nil {
			continue
		}
		for _, ref := range *rv.Referrers() {
			if call, ok := ref.(*ssa.Call); ok && !call.Call.IsInvoke() && len(call.Call.Args) > 0 && call.Call.Args[0] == rv {
				calls = append(calls, call)
			}
		}
	}
	for _, call := range calls {
		sc := call.Call.StaticCallee()
		if sc == nil || !methodMakes(sc, fv) {
			continue
		}
		escapesBefore := false
		for _, r2 := range *a.Referrers() {
			if r2 == ssa.Instruction(call) {
				continue
			}
			esc := false
			switch x := r2.(type) {
			case *ssa.FieldAddr, *ssa.DebugRef:
			case *ssa.Store:
				esc = x.Val == ssa.Value(a)
			default:
				esc = true
			}
			if esc && CanPrecede(reach, r2, call) {
				escapesBefore = true
			}
		}
		if !escapesBefore {
			return true
		}
	}
	for _, s := range st {
		if s.Block() == a.Block() {
			return true // part of the literal that creates the object
		}
		all := true
		for _, b := range fn.Blocks {
			// only returns that can follow the creation matter
			if isReturnBlock(b) && (b == a.Block() || reach[a.Block().Index][b.Index]) && !(s.Block() == b || s.Block().Dominates(b)) {
				all = false
			}
		}
		if all {
			return true
		}
	}
	return false
}

// methodMakes: m stores a made map / channel into field fv of its receiver on every path to a
// return.
func methodMakes(m *ssa.Function, fv *types.Var) bool {
	if m.Blocks == nil || len(m.Params) == 0 {
		return false
	}
	found := false
	EachInstr(m, func(in ssa.Instruction) {
		s, ok := in.(*ssa.Store)
		if !ok || found {
			return
		}
		fa, ok := s.Addr.(*ssa.FieldAddr)
		if !ok {
			return
		}
		if v, _ := fieldAddrVar(fa); v != fv || !nonNilMapValue(s.Val, map[ssa.Value]bool{}) {
			return
		}
		// the receiver itself (possibly through the spill of a captured receiver)
		base := fa.X
		if u, isLoad := base.(*ssa.UnOp); isLoad && u.Op == token.MUL {
			if al, isAlloc := u.X.(*ssa.Alloc); isAlloc {
				if src := allocSource(al); src != nil {
					base = src
				}
			}
		}
		if base != ssa.Value(m.Params[0]) {
			return
		}
		all := true
		for _, b := range m.Blocks {
			if isReturnBlock(b) && !(s.Block() == b || s.Block().Dominates(b)) {
				all = false
			}
		}
		if all {
			found = true
		}
	})
	return found
}

// ---------------------------------------------------------------------------------
// must-non-nil dataflow

// e12Tracked: the fields whose nil-ness is tracked: map-valued fields that are not made in
// every creation of their struct, and pointer / interface / function valued fields that the
// module compares with nil somewhere.
func (p *Prog) e12Tracked() map[*types.Var]string {
	if p.e12t != nil {
		return p.e12t
	}
	res := p.e12()
	out := map[*types.Var]string{}
	for fv, f := range res.fields {
		if _, isMap := fv.Type().Underlying().(*types.Map); isMap {
			if ok, _ := p.mapFieldAlwaysMade(f); !ok {
				out[fv] = "map"
			}
			continue
		}
		if _, isChan := fv.Type().Underlying().(*types.Chan); isChan {
			if res.closedFields[fv] {
				if ok, _ := p.mapFieldAlwaysMade(f); !ok {
					out[fv] = "map" // same discipline as a map: made, or tested, before the close
				}
			}
			continue
		}
		if k := nilableKind(fv.Type()); k != "" {
			if f.owner == nil || f.owner.Obj().Pkg() == nil {
				continue
			}
			if _, inMod := Rel(f.owner.Obj().Pkg().Path()); !inMod {
				continue
			}
			nilStore := false
			for _, s := range f.stores {
				if IsNilConst(s.Val) {
					nilStore = true
				}
			}
			// the module says the field is optional: it tests it, or it clears it
			if len(f.nilTest) > 0 || nilStore {
				out[fv] = k
			}
		}
	}
	p.e12t = out
	return out
}

// mapFieldAlwaysMade: every store to the field stores a made map and every creation of the
// struct makes it (or the struct is a package variable whose map is made by an init function).
func (p *Prog) mapFieldAlwaysMade(f *e12Field) (bool, string) {
	if len(f.stores) == 0 {
		return false, "nothing makes the map"
	}
	global := true
	inInit := false
	for _, s := range f.stores {
		if !nonNilMapValue(s.Val, map[ssa.Value]bool{}) {
			return false, "the field is assigned " + Desc(s.Val) + " at " + p.InstrPos(s)
		}
		fa := s.Addr.(*ssa.FieldAddr)
		if _, isG := fa.X.(*ssa.Global); !isG {
			global = false
		} else if strings.HasPrefix(s.Parent().Name(), "init") && s.Parent().Signature.Recv() == nil && s.Parent().Parent() == nil {
			// must be unconditional in the init function
			all := true
			for _, b := range s.Parent().Blocks {
				if isReturnBlock(b) && !(s.Block() == b || s.Block().Dominates(b)) {
					all = false
				}
			}
			if all {
				inInit = true
			}
		}
	}
	if global {
		if inInit {
			return true, "a package variable whose map is made by an init function; all stores store a made map"
		}
		return false, "a package variable whose map no init function makes"
	}
	if f.owner == nil {
		return false, "creations of the anonymous struct are not enumerated"
	}
	res := p.e12()
	allocs := res.allocs[f.owner]
	if len(allocs) == 0 {
		return false, "no creation of " + TypeKey(f.owner) + " found"
	}
	for _, a := range allocs {
		if !p.allocInitialises(a, f.v) {
			return false, "the " + TypeKey(f.owner) + " created at " + p.InstrPos(a) + " does not get a map in this field"
		}
	}
	// the struct must not come into being as a zero value inside something else
	if n := p.valueEmbeddings(f.owner, f.v); n != "" {
		return false, "a " + TypeKey(f.owner) + " also exists as " + n + ", whose zero value has a nil map"
	}
	return true, fmt.Sprintf("every creation of %s (%d) makes the map and all %d stores store a made map", TypeKey(f.owner), len(allocs), len(f.stores))
}

// valueEmbeddings: T occurs by value as a field of a module struct, as an array/slice/map
// element or as a package variable (such a T comes into being without any Alloc of T).
func (p *Prog) valueEmbeddings(T *types.Named, fv *types.Var) string {
	for _, pk := range p.Pkgs {
		sc := pk.Types.Scope()
		for _, name := range sc.Names() {
			switch o := sc.Lookup(name).(type) {
			case *types.Var:
				if types.Identical(o.Type(), T) {
					return "the package variable " + o.Name()
				}
			case *types.TypeName:
				st, ok := o.Type().Underlying().(*types.Struct)
				if !ok {
					continue
				}
				for i := 0; i < st.NumFields(); i++ {
					ft := st.Field(i).Type()
					if types.Identical(ft, T) {
						// fine when every creation of the outer struct makes the nested map
						outer, _ := o.Type().(*types.Named)
						ok := outer != nil && len(p.e12().allocs[outer]) > 0 && p.valueEmbeddings(outer, fv) == ""
						if ok {
							for _, a := range p.e12().allocs[outer] {
								if !p.allocInitialises(a, fv) {
									ok = false
								}
							}
						}
						if ok {
							continue
						}
						return "the field " + o.Name() + "." + st.Field(i).Name()
					}
					switch u := ft.Underlying().(type) {
					case *types.Slice:
						if types.Identical(u.Elem(), T) {
							return "an element of " + o.Name() + "." + st.Field(i).Name()
						}
					case *types.Array:
						if types.Identical(u.Elem(), T) {
							return "an element of " + o.Name() + "." + st.Field(i).Name()
						}
					case *types.Map:
						if types.Identical(u.Elem(), T) {
							return "an element of " + o.Name() + "." + st.Field(i).Name()
						}
					}
				}
			}
		}
	}
	return ""
}

type e12Facts map[string]bool

func (f e12Facts) clone() e12Facts {
	o := e12Facts{}
	for k := range f {
		o[k] = true
	}
	return o
}

func meetE12(a, b e12Facts) e12Facts {
	if a == nil {
		return b.clone()
	}
	o := e12Facts{}
	for k := range a {
		if b[k] {
			o[k] = true
		}
	}
	return o
}

func sameFacts(a, b e12Facts) bool {
	if len(a) != len(b) {
		return false
	}
	for k := range a {
		if !b[k] {
			return false
		}
	}
	return true
}

// companions: G -> tracked fields F of the same struct that are set whenever G is set and
// cleared only together with G ("the saved route and the pipe it came from"): a test of G
// speaks for F.
func (fl *e12Flow) computeCompanions() {
	res := fl.p.e12()
	fl.companions = map[*types.Var][]*types.Var{}
	sameBlockStore := func(s *ssa.Store, other *types.Var, want func(v ssa.Value) bool) bool {
		fa := s.Addr.(*ssa.FieldAddr)
		base := Desc(fa.X)
		found := false
		EachInstr(s.Parent(), func(in ssa.Instruction) {
			s2, ok := in.(*ssa.Store)
			if !ok || found {
				return
			}
			fa2, ok := s2.Addr.(*ssa.FieldAddr)
			if !ok {
				return
			}
			// the two stores lie on the same paths: one dominates the other
			if v, _ := fieldAddrVar(fa2); v == other && Desc(fa2.X) == base && want(s2.Val) && (InstrDominates(s, s2) || InstrDominates(s2, s)) {
				found = true
			}
		})
		return found
	}
	for fv, kind := range fl.tracked {
		if kind == "map" {
			continue
		}
		F := res.fields[fv]
		if F == nil || F.owner == nil {
			continue
		}
		st, ok := F.owner.Underlying().(*types.Struct)
		if !ok {
			continue
		}
		for i := 0; i < st.NumFields(); i++ {
			gv := st.Field(i)
			G := res.fields[gv]
			if gv == fv || G == nil || len(G.nilTest) == 0 || len(G.stores) == 0 {
				continue
			}
			ok := true
			for _, s := range G.stores {
				if IsNilConst(s.Val) {
					continue
				}
				fl.at = s
				if !sameBlockStore(s, fv, func(v ssa.Value) bool { return fl.staticNonNil(v, map[ssa.Value]bool{}) }) {
					ok = false
				}
				fl.at = nil
			}
			for _, s := range F.stores {
				fl.at = s
				nn := fl.staticNonNil(s.Val, map[ssa.Value]bool{})
				fl.at = nil
				if nn {
					continue
				}
				if !sameBlockStore(s, gv, IsNilConst) {
					ok = false
				}
			}
			if ok {
				fl.companions[gv] = append(fl.companions[gv], fv)
			}
		}
	}
}

// liveEdges: the edges of merge ph that can have been taken when control is at fl.at: an edge
// on which a sibling merge of the same block is the nil constant is dead where that sibling is
// known to be non-nil (`var m, p = nil, nil; select { case e := <-q: m, p = e.m, e.p … };
// if m != nil { use p }`).
func (fl *e12Flow) liveEdges(ph *ssa.Phi) []ssa.Value {
	if fl.at == nil {
		return ph.Edges
	}
	dead := map[int]bool{}
	for _, a := range fl.p.GuardsOf(fl.at.Block()) {
		bo, ok := a.Cond.(*ssa.BinOp)
		if !ok {
			continue
		}
		var o ssa.Value
		if IsNilConst(bo.Y) {
			o = bo.X
		} else if IsNilConst(bo.X) {
			o = bo.Y
		}
		sib, ok := o.(*ssa.Phi)
		if !ok || sib.Block() != ph.Block() || len(sib.Edges) != len(ph.Edges) {
			continue
		}
		if !((bo.Op == token.NEQ && a.Pol) || (bo.Op == token.EQL && !a.Pol)) {
			continue
		}
		for i, e := range sib.Edges {
			if IsNilConst(e) {
				dead[i] = true
			}
		}
	}
	if len(dead) == 0 {
		return ph.Edges
	}
	var out []ssa.Value
	for i, e := range ph.Edges {
		if !dead[i] {
			out = append(out, e)
		}
	}
	return out
}

type e12Flow struct {
	exit       map[*ssa.Function]e12Facts // facts at every successful return, in the callee's own terms
	at         ssa.Instruction
	companions map[*types.Var][]*types.Var
	p          *Prog
	tracked    map[*types.Var]string
	killers    map[*types.Var]map[*ssa.Function]bool // functions that may (transitively) unset the field
	entry      map[*ssa.Function]e12Facts            // nil = not yet constrained (top)
	open       map[*ssa.Function]bool                // callable from outside / through values: entry is empty
	in         map[*ssa.BasicBlock]e12Facts
	siteCall   map[ssa.Instruction][]*ssa.Function
}

func pathOfFieldAddr(fa *ssa.FieldAddr) string {
	st := derefStruct(fa.X.Type())
	if st == nil {
		return ""
	}
	return Desc(fa.X) + "." + st.Field(fa.Field).Name()
}

func pathOfLoad(v ssa.Value) string {
	switch x := v.(type) {
	case *ssa.UnOp:
		if fa, ok := x.X.(*ssa.FieldAddr); ok && x.Op == token.MUL {
			return pathOfFieldAddr(fa)
		}
	case *ssa.Field:
		if st, ok := x.X.Type().Underlying().(*types.Struct); ok {
			return Desc(x.X) + "." + st.Field(x.Field).Name()
		}
	}
	return ""
}

func (p *Prog) e12Flow() *e12Flow {
	if p.e12f != nil {
		return p.e12f
	}
	fl := &e12Flow{p: p, tracked: p.e12Tracked(), killers: map[*types.Var]map[*ssa.Function]bool{},
		entry: map[*ssa.Function]e12Facts{}, open: map[*ssa.Function]bool{}, in: map[*ssa.BasicBlock]e12Facts{}, exit: map[*ssa.Function]e12Facts{},
		siteCall: map[ssa.Instruction][]*ssa.Function{}}
	p.e12f = fl
	fl.computeCompanions()
	cg := p.CG()
	inFuncs := map[*ssa.Function]bool{}
	for _, fn := range p.Funcs {
		inFuncs[fn] = true
	}
	// call sites -> module callees; callers of each function
	callers := map[*ssa.Function][]*ssa.Function{}
	for _, fn := range p.Funcs {
		n := cg.Nodes[fn]
		if n == nil {
			continue
		}
		for _, e := range n.Out {
			c := e.Callee.Func
			if c == nil || !inFuncs[c] || e.Site == nil {
				continue
			}
			fl.siteCall[e.Site] = append(fl.siteCall[e.Site], c)
			callers[c] = append(callers[c], fn)
		}
	}
	// direct killers, then transitive through synchronous calls
	for _, fn := range p.Funcs {
		EachInstr(fn, func(in ssa.Instruction) {
			s, ok := in.(*ssa.Store)
			if !ok {
				return
			}
			fv, _ := fieldAddrVar(s.Addr)
			if fv == nil || fl.tracked[fv] == "" {
				return
			}
			fl.at = s
			nn := fl.staticNonNil(s.Val, map[ssa.Value]bool{})
			fl.at = nil
			if nn || fl.cameWithCheckedError(s.Val, s) {
				return
			}
			if fl.killers[fv] == nil {
				fl.killers[fv] = map[*ssa.Function]bool{}
			}
			fl.killers[fv][fn] = true
		})
	}
	for _, ks := range fl.killers {
		work := []*ssa.Function{}
		for f := range ks {
			work = append(work, f)
		}
		for len(work) > 0 {
			f := work[len(work)-1]
			work = work[:len(work)-1]
			for _, c := range callers[f] {
				if !ks[c] {
					ks[c] = true
					work = append(work, c)
				}
			}
			if par := f.Parent(); par != nil && !ks[par] {
				// a closure defined in par may run inside it
				ks[par] = true
				work = append(work, par)
			}
		}
	}
	// open functions: exported, init, referenced as values, or called from outside the analysed set
	for _, fn := range p.Funcs {
		if fn.Parent() != nil {
			continue // closures take the facts of their creation site
		}
		if ast := fn.Object(); ast != nil && ast.Exported() {
			fl.open[fn] = true
		}
		if strings.HasPrefix(fn.Name(), "init") || fn.Name() == "main" {
			fl.open[fn] = true
		}
		n := cg.Nodes[fn]
		if n == nil || len(n.In) == 0 {
			fl.open[fn] = true
			continue
		}
		for _, e := range n.In {
			if e.Caller.Func == nil || !inFuncs[e.Caller.Func] || e.Site == nil {
				fl.open[fn] = true
			}
		}
	}
	// greatest fixpoint over entry facts
	for round := 0; round < 12; round++ {
		changed := false
		next := map[*ssa.Function]e12Facts{}
		for _, fn := range p.Funcs {
			fl.solve(fn)
			var exitF e12Facts
			haveExit := false
			for _, b := range fn.Blocks {
				facts := fl.in[b]
				if facts == nil {
					continue // unreachable so far
				}
				facts = facts.clone()
				for _, in := range b.Instrs {
					if ret, isRet := in.(*ssa.Return); isRet && fn.Parent() == nil {
						// a return that reports success: no error result, or a nil one
						okRet := true
						if n := len(ret.Results); n > 0 && isErrorType(ret.Results[n-1].Type()) {
							rv := ret.Results[n-1]
							// functions with a defer return through spilled result cells
							if u, isLoad := rv.(*ssa.UnOp); isLoad {
								if sv := reachingStore(u); sv != nil {
									rv = sv
								}
							}
							okRet = IsNilConst(rv)
						}
						if okRet {
							only := e12Facts{}
							for k := range facts {
								if (strings.HasPrefix(k, "recv.") || strings.HasPrefix(k, "arg")) && !strings.HasPrefix(k, "?") {
									only[k] = true
								}
							}
							if !haveExit {
								exitF, haveExit = only, true
							} else {
								exitF = meetE12(exitF, only)
							}
						}
					}
					switch x := in.(type) {
					case *ssa.MakeClosure:
						if c, ok := x.Fn.(*ssa.Function); ok && inFuncs[c] {
							// captured parameters keep their canonical names inside the closure
							tr := e12Facts{}
							for k := range facts {
								if strings.HasPrefix(k, "recv.") || strings.HasPrefix(k, "arg") {
									tr[k] = true
								}
							}
							next[c] = meetE12(next[c], tr)
						}
					case ssa.CallInstruction:
						for _, c := range fl.siteCall[in] {
							if c.Parent() != nil {
								continue
							}
							tr := fl.translate(x.Common(), c, facts)
							next[c] = meetE12(next[c], tr)
						}
					}
					fl.transfer(in, facts)
				}
			}
			if haveExit {
				if old, ok := fl.exit[fn]; !ok || !sameFacts(old, exitF) {
					fl.exit[fn] = exitF
					changed = true
				}
			}
		}
		for _, fn := range p.Funcs {
			var want e12Facts
			if fl.open[fn] {
				want = e12Facts{}
			} else {
				want = next[fn]
				if want == nil {
					want = e12Facts{}
				}
			}
			if old, ok := fl.entry[fn]; !ok || !sameFacts(old, want) {
				fl.entry[fn] = want
				changed = true
			}
		}
		if !changed {
			break
		}
	}
	return fl
}

// translate the facts that hold at a call into the callee's parameter names.
func (fl *e12Flow) translate(c *ssa.CallCommon, callee *ssa.Function, facts e12Facts) e12Facts {
	out := e12Facts{}
	var args []ssa.Value
	if c.IsInvoke() {
		args = append([]ssa.Value{c.Value}, c.Args...)
	} else {
		args = c.Args
	}
	for i, a := range args {
		if i >= len(callee.Params) {
			break
		}
		ad := Desc(a)
		pn := paramName(callee.Params[i])
		for k := range facts {
			if strings.HasPrefix(k, ad+".") {
				out[pn+k[len(ad):]] = true
			}
		}
	}
	return out
}

// staticNonNil: v is not nil whatever the state (used to find the functions that may unset).
func (fl *e12Flow) staticNonNil(v ssa.Value, seen map[ssa.Value]bool) bool {
	if seen[v] {
		return true
	}
	seen[v] = true
	switch x := v.(type) {
	case *ssa.Const:
		return !x.IsNil()
	case *ssa.Phi:
		for _, e := range fl.liveEdges(x) {
			if !fl.staticNonNil(e, seen) {
				return false
			}
		}
		return true
	case *ssa.ChangeType:
		return fl.staticNonNil(x.X, seen)
	case *ssa.ChangeInterface:
		return fl.staticNonNil(x.X, seen)
	case *ssa.Extract:
		// the value that comes with an error: nil when the call failed
		if tup, ok := x.Tuple.(*ssa.Call); ok && x.Index == 0 {
			res := tup.Call.Signature().Results()
			if res.Len() >= 2 && isErrorType(res.At(res.Len()-1).Type()) {
				return false
			}
		}
		return true
	}
	if fv, _, _ := loadedField(v); fv != nil && fl.tracked[fv] != "" {
		return false
	}
	if _, isMap := v.Type().Underlying().(*types.Map); isMap {
		return nonNilMapValue(v, map[ssa.Value]bool{})
	}
	return true
}

func (fl *e12Flow) nonNilIn(v ssa.Value, facts e12Facts, seen map[ssa.Value]bool) bool {
	if seen[v] {
		return true
	}
	seen[v] = true
	switch x := v.(type) {
	case *ssa.Const:
		return !x.IsNil()
	case *ssa.Phi:
		for _, e := range fl.liveEdges(x) {
			if !fl.nonNilIn(e, facts, seen) {
				return false
			}
		}
		return true
	case *ssa.ChangeType:
		return fl.nonNilIn(x.X, facts, seen)
	case *ssa.ChangeInterface:
		return fl.nonNilIn(x.X, facts, seen)
	case *ssa.Extract:
		if tup, ok := x.Tuple.(*ssa.Call); ok && x.Index == 0 {
			res := tup.Call.Signature().Results()
			if res.Len() >= 2 && isErrorType(res.At(res.Len()-1).Type()) {
				return false // becomes a fact on the nil side of the error test
			}
		}
		return true
	}
	if fv, _, _ := loadedField(v); fv != nil && fl.tracked[fv] != "" {
		return facts[pathOfLoad(v)]
	}
	if _, isMap := v.Type().Underlying().(*types.Map); isMap {
		return nonNilMapValue(v, map[ssa.Value]bool{})
	}
	return true
}

// cameWithCheckedError: v is (a merge of) first results of calls that also return an error, and
// at `at` that error (or a variable every one of them was merged into) is known to be nil.
func (fl *e12Flow) cameWithCheckedError(v ssa.Value, at ssa.Instruction) bool {
	calls := map[*ssa.Call]bool{}
	ok := true
	var walk func(v ssa.Value, seen map[ssa.Value]bool)
	walk = func(v ssa.Value, seen map[ssa.Value]bool) {
		if seen[v] {
			return
		}
		seen[v] = true
		switch x := v.(type) {
		case *ssa.Phi:
			for _, e := range x.Edges {
				walk(e, seen)
			}
		case *ssa.ChangeInterface:
			walk(x.X, seen)
		case *ssa.MakeInterface:
			walk(x.X, seen)
		case *ssa.Extract:
			if tup, isCall := x.Tuple.(*ssa.Call); isCall && x.Index == 0 {
				res := tup.Call.Signature().Results()
				if res.Len() >= 2 && isErrorType(res.At(res.Len()-1).Type()) {
					calls[tup] = true
					return
				}
			}
			ok = false
		default:
			ok = false
		}
	}
	walk(v, map[ssa.Value]bool{})
	if !ok || len(calls) == 0 {
		return false
	}
	for _, a := range fl.p.GuardsOf(at.Block()) {
		bo, isBin := a.Cond.(*ssa.BinOp)
		if !isBin {
			continue
		}
		var o ssa.Value
		if IsNilConst(bo.Y) {
			o = bo.X
		} else if IsNilConst(bo.X) {
			o = bo.Y
		}
		if o == nil || !isErrorType(o.Type()) {
			continue
		}
		if !((bo.Op == token.EQL && a.Pol) || (bo.Op == token.NEQ && !a.Pol)) {
			continue
		}
		// the calls whose error can be in o
		covered := map[*ssa.Call]bool{}
		var ew func(v ssa.Value, seen map[ssa.Value]bool)
		ew = func(v ssa.Value, seen map[ssa.Value]bool) {
			if seen[v] {
				return
			}
			seen[v] = true
			switch x := v.(type) {
			case *ssa.Phi:
				for _, e := range x.Edges {
					ew(e, seen)
				}
			case *ssa.Extract:
				if tup, isCall := x.Tuple.(*ssa.Call); isCall {
					covered[tup] = true
				}
			}
		}
		ew(o, map[ssa.Value]bool{})
		all := true
		for c := range calls {
			if !covered[c] {
				all = false
			}
		}
		if all {
			return true
		}
	}
	return false
}

func (fl *e12Flow) transfer(in ssa.Instruction, facts e12Facts) {
	switch x := in.(type) {
	case *ssa.Store:
		fa, ok := x.Addr.(*ssa.FieldAddr)
		if !ok {
			return
		}
		fv, _ := fieldAddrVar(fa)
		if fv == nil || fl.tracked[fv] == "" {
			return
		}
		path := pathOfFieldAddr(fa)
		fl.at = in
		nn := fl.nonNilIn(x.Val, facts, map[ssa.Value]bool{})
		fl.at = nil
		if nn || fl.cameWithCheckedError(x.Val, in) {
			facts[path] = true
			return
		}
		// unset (or unknown): every alias of the field is in doubt
		suf := "." + fv.Name()
		for k := range facts {
			if strings.HasSuffix(k, suf) {
				delete(facts, k)
			}
		}
		if ex, ok := x.Val.(*ssa.Extract); ok {
			if tup, ok := ex.Tuple.(*ssa.Call); ok {
				facts[fmt.Sprintf("?%p|%s", tup, path)] = true
			}
		}
	case ssa.CallInstruction:
		if _, isGo := in.(*ssa.Go); isGo {
			return
		}
		if _, isDefer := in.(*ssa.Defer); isDefer {
			return
		}
		for _, c := range fl.siteCall[in] {
			for fv, ks := range fl.killers {
				if ks[c] {
					suf := "." + fv.Name()
					for k := range facts {
						if strings.HasSuffix(k, suf) {
							delete(facts, k)
						}
					}
				}
			}
		}
		// what the callee has established on every successful return holds after the call
		// (at once when it reports no error, else on the nil side of the test of its error)
		cc := x.Common()
		if sc := cc.StaticCallee(); sc != nil && !cc.IsInvoke() {
			if ex := fl.exit[sc]; len(ex) > 0 {
				call, isCall := in.(*ssa.Call)
				res := sc.Signature.Results()
				hasErr := res.Len() > 0 && isErrorType(res.At(res.Len()-1).Type())
				for k := range ex {
					for i, a := range cc.Args {
						if i >= len(sc.Params) {
							break
						}
						pn := paramName(sc.Params[i])
						if strings.HasPrefix(k, pn+".") {
							path := Desc(a) + k[len(pn):]
							if !hasErr {
								facts[path] = true
							} else if isCall {
								facts[fmt.Sprintf("?%p|%s", call, path)] = true
							}
						}
					}
				}
			}
		}
	}
}

// edgeFacts: what the branch from b to its k-th successor adds.
func (fl *e12Flow) edgeFacts(b *ssa.BasicBlock, k int, facts e12Facts) {
	if len(b.Instrs) == 0 {
		return
	}
	iff, ok := b.Instrs[len(b.Instrs)-1].(*ssa.If)
	if !ok {
		return
	}
	bo, ok := iff.Cond.(*ssa.BinOp)
	if !ok || (bo.Op != token.EQL && bo.Op != token.NEQ) {
		return
	}
	var o ssa.Value
	if IsNilConst(bo.Y) {
		o = bo.X
	} else if IsNilConst(bo.X) {
		o = bo.Y
	}
	if o == nil {
		return
	}
	nonNilSide := (bo.Op == token.NEQ && k == 0) || (bo.Op == token.EQL && k == 1)
	if fv, _, _ := loadedField(o); fv != nil {
		if nonNilSide {
			if fl.tracked[fv] != "" {
				facts[pathOfLoad(o)] = true
			}
			if cs := fl.companions[fv]; len(cs) > 0 {
				pth := pathOfLoad(o)
				if i := strings.LastIndex(pth, "."); i >= 0 {
					for _, c := range cs {
						facts[pth[:i]+"."+c.Name()] = true
					}
				}
			}
		}
		if fl.tracked[fv] != "" {
			return
		}
	}
	// the single error result of a call that establishes fields when it succeeds
	if call, ok := o.(*ssa.Call); ok && isErrorType(call.Type()) && !nonNilSide {
		pre := fmt.Sprintf("?%p|", call)
		for kf := range facts {
			if strings.HasPrefix(kf, pre) {
				facts[kf[len(pre):]] = true
			}
		}
	}
	// the error of a call whose first result was stored into a tracked field
	if ex, ok := o.(*ssa.Extract); ok && isErrorType(ex.Type()) && !nonNilSide {
		if tup, ok := ex.Tuple.(*ssa.Call); ok {
			pre := fmt.Sprintf("?%p|", tup)
			for kf := range facts {
				if strings.HasPrefix(kf, pre) {
					facts[kf[len(pre):]] = true
				}
			}
		}
	}
}

func (fl *e12Flow) solve(fn *ssa.Function) {
	if len(fn.Blocks) == 0 {
		return
	}
	for _, b := range fn.Blocks {
		delete(fl.in, b)
	}
	ent := fl.entry[fn]
	if ent == nil {
		if _, constrained := fl.entry[fn]; !constrained && !fl.open[fn] {
			// top: nothing known yet about the callers; start optimistic with the facts the
			// function itself can use (all tracked paths it mentions)
			ent = fl.mentioned(fn)
		} else {
			ent = e12Facts{}
		}
	}
	fl.in[fn.Blocks[0]] = ent.clone()
	work := []*ssa.BasicBlock{fn.Blocks[0]}
	for len(work) > 0 {
		b := work[0]
		work = work[1:]
		facts := fl.in[b].clone()
		for _, in := range b.Instrs {
			fl.transfer(in, facts)
		}
		for k, s := range b.Succs {
			out := facts.clone()
			fl.edgeFacts(b, k, out)
			old, seen := fl.in[s]
			var nw e12Facts
			if !seen {
				nw = out
			} else {
				nw = meetE12(old, out)
			}
			if !seen || !sameFacts(old, nw) {
				fl.in[s] = nw
				work = append(work, s)
			}
		}
	}
}

// mentioned: every tracked path the function reads or writes (the optimistic start).
func (fl *e12Flow) mentioned(fn *ssa.Function) e12Facts {
	out := e12Facts{}
	EachInstr(fn, func(in ssa.Instruction) {
		if fa, ok := in.(*ssa.FieldAddr); ok {
			if fv, _ := fieldAddrVar(fa); fv != nil && fl.tracked[fv] != "" {
				out[pathOfFieldAddr(fa)] = true
			}
		}
	})
	return out
}

// factsBefore: the facts that hold right before instruction at.
func (fl *e12Flow) factsBefore(at ssa.Instruction) e12Facts {
	b := at.Block()
	fl.solve(at.Parent())
	f0 := fl.in[b]
	if f0 == nil {
		return nil // unreachable
	}
	facts := f0.clone()
	for _, in := range b.Instrs {
		if in == at {
			break
		}
		fl.transfer(in, facts)
	}
	return facts
}

// E12a: every assignment into a map held in a struct field.
func (p *Prog) e12MapWrites(r *Report, R string, inScope func(*ssa.Function) bool) {
	res := p.e12()
	fl := p.e12Flow()
	n := 0
	nClose := 0
	per := map[string]int{}
	defer func() { r.Count("e12a.field_closes."+R, nClose) }()
	for _, fn := range p.Funcs {
		if !inScope(fn) {
			continue
		}
		EachInstr(fn, func(in ssa.Instruction) {
			if c, isCall := in.(*ssa.Call); isCall && IsBuiltin(&c.Call, "close") && len(c.Call.Args) == 1 {
				fv, owner, _ := loadedField(c.Call.Args[0])
				if fv == nil || owner == nil || owner.Obj().Pkg() == nil {
					return
				}
				if _, inMod := Rel(owner.Obj().Pkg().Path()); !inMod {
					return
				}
				nClose++
				f := res.fields[fv]
				key := p.FuncName(fn) + "/close(" + fv.Name() + ")"
				per[key]++
				if per[key] > 1 {
					key = fmt.Sprintf("%s#%d", key, per[key])
				}
				if f == nil {
					r.Bad(R, key, p.InstrPos(in), "close of the channel "+fieldKey(fv, owner)+", which nothing in the module makes: closing a nil channel panics")
					return
				}
				if ok2, why := p.mapFieldAlwaysMade(f); ok2 {
					r.OK(R, key, p.InstrPos(in), why)
				} else if facts := fl.factsBefore(in); facts == nil || facts[pathOfLoad(c.Call.Args[0])] {
					r.OK(R, key, p.InstrPos(in), "made or tested on every path to the close (not always made: "+why+")")
				} else {
					r.Bad(R, key, p.InstrPos(in), "close of the channel "+fieldKey(fv, owner)+", which can be nil here: "+why+", and neither a test nor a make of "+pathOfLoad(c.Call.Args[0])+" lies on every path to the close: closing a nil channel panics")
				}
				return
			}
			mu, ok := in.(*ssa.MapUpdate)
			if !ok {
				return
			}
			fv, owner, _ := loadedField(mu.Map)
			if fv == nil {
				return
			}
			n++
			f := res.fields[fv]
			key := p.FuncName(fn) + "/" + fv.Name() + "[…]="
			per[key]++
			if per[key] > 1 {
				key = fmt.Sprintf("%s#%d", key, per[key])
			}
			if f != nil {
				if ok2, why := p.mapFieldAlwaysMade(f); ok2 {
					r.OK(R, key, p.InstrPos(in), why)
					return
				} else if facts := fl.factsBefore(in); facts == nil || facts[pathOfLoad(mu.Map)] {
					r.OK(R, key, p.InstrPos(in), "made or tested on every path to the assignment (not always made: "+why+")")
					return
				} else {
					r.Bad(R, key, p.InstrPos(in), "assignment into the map "+fieldKey(fv, owner)+", which can be nil here: "+why+", and neither a test nor a make of "+pathOfLoad(mu.Map)+" lies on every path to the assignment: writing to a nil map panics")
					return
				}
			}
			r.Bad(R, key, p.InstrPos(in), "assignment into the map "+fieldKey(fv, owner)+", which nothing in the module makes: writing to a nil map panics")
		})
	}
	r.Count("e12a.map_writes."+R, n)
}

func fieldKey(fv *types.Var, n *types.Named) string {
	if n != nil {
		return TypeKey(n) + "." + fv.Name()
	}
	return fv.Name()
}

// ---------------------------------------------------------------------------------
// E12b: uses through possibly-nil fields

func nilableKind(t types.Type) string {
	switch u := t.Underlying().(type) {
	case *types.Pointer:
		if _, ok := u.Elem().Underlying().(*types.Struct); ok {
			return "pointer"
		}
	case *types.Interface:
		return "interface"
	case *types.Signature:
		return "func"
	}
	return ""
}

// derefUses: instructions that panic when v is nil.
func derefUses(v ssa.Value) []ssa.Instruction {
	var out []ssa.Instruction
	refs := v.Referrers()
	if refs == nil {
		return nil
	}
	for _, ref := range *refs {
		switch x := ref.(type) {
		case *ssa.FieldAddr:
			if x.X == v {
				out = append(out, x)
			}
		case *ssa.UnOp:
			if x.Op == token.MUL && x.X == v {
				out = append(out, x)
			}
		case ssa.CallInstruction:
			c := x.Common()
			if c.IsInvoke() && c.Value == v {
				out = append(out, x)
			} else if !c.IsInvoke() && c.Value == v {
				out = append(out, x) // call of a func value
			} else if !c.IsInvoke() && len(c.Args) > 0 && c.Args[0] == v {
				if sc := c.StaticCallee(); sc != nil && sc.Signature.Recv() != nil {
					if _, isPtr := sc.Signature.Recv().Type().(*types.Pointer); isPtr && recvDerefs(sc) {
						out = append(out, x)
					}
				}
			}
		}
	}
	return out
}

// recvDerefs: conservatively true unless the method starts by comparing its receiver with nil.
func recvDerefs(fn *ssa.Function) bool {
	if len(fn.Params) == 0 || len(fn.Blocks) == 0 {
		return true
	}
	rp := fn.Params[0]
	for _, ref := range *rp.Referrers() {
		if bo, ok := ref.(*ssa.BinOp); ok && (bo.Op == token.EQL || bo.Op == token.NEQ) && (IsNilConst(bo.X) || IsNilConst(bo.Y)) && bo.Block() == fn.Blocks[0] {
			return false
		}
	}
	return true
}

// E12b: every use through a load of a tracked pointer / interface / function field.
func (p *Prog) e12Uses(r *Report, R string, inScope func(*ssa.Function) bool) {
	fl := p.e12Flow()
	n := 0
	per := map[string]int{}
	for _, fn := range p.Funcs {
		if !inScope(fn) {
			continue
		}
		EachInstr(fn, func(in ssa.Instruction) {
			v, ok := in.(ssa.Value)
			if !ok {
				return
			}
			fv, owner, _ := loadedField(v)
			if fv == nil || fl.tracked[fv] == "" || fl.tracked[fv] == "map" {
				return
			}
			for _, u := range derefUses(v) {
				n++
				key := p.FuncName(fn) + "/use(" + fv.Name() + ")"
				per[key]++
				if per[key] > 1 {
					key = fmt.Sprintf("%s#%d", key, per[key])
				}
				ok2, why := fl.useSafe(v, u)
				r.Check(ok2, R, key, p.InstrPos(u), why, "use through "+fieldKey(fv, owner)+", which the module itself compares with nil elsewhere, at a place where "+why+": a nil value panics here")
			}
		})
	}
	r.Count("e12b.uses."+R, n)
}

func (fl *e12Flow) useSafe(load ssa.Value, use ssa.Instruction) (bool, string) {
	p := fl.p
	// the loaded value itself was tested
	for _, a := range p.GuardsOf(use.Block()) {
		if bo, ok := a.Cond.(*ssa.BinOp); ok {
			if (bo.X == load && IsNilConst(bo.Y)) || (bo.Y == load && IsNilConst(bo.X)) {
				if (bo.Op == token.NEQ && a.Pol) || (bo.Op == token.EQL && !a.Pol) {
					return true, "the loaded value was tested"
				}
			}
		}
	}
	path := pathOfLoad(load)
	// facts at the load: a value read while the field was set stays set
	li, _ := load.(ssa.Instruction)
	if li == nil {
		return false, "the load is not an instruction"
	}
	facts := fl.factsBefore(li)
	if facts == nil {
		return true, "unreachable"
	}
	if facts[path] {
		return true, path + " is set or tested non-nil on every path to here (through callers where needed)"
	}
	return false, "no test or assignment of " + path + " lies on every path to it (callers included)"
}

// nilSafe runs E12a and E12b over the functions sel accepts.
func nilSafe(p *Prog, r *Report, R string, what string, sel func(fn *ssa.Function) bool) {
	r.Describe(R, "no assignment into a map that can be nil, and no use through a pointer, interface or function valued field that the module itself compares with nil elsewhere unless a test or an assignment of that very field lies on every path to the use (paths through callers and closure creation included; a call that may clear the field ends what was known) — "+what)
	p.e12MapWrites(r, R, sel)
	p.e12Uses(r, R, sel)
}

// DumpE12 prints the raw material of E12 (used while writing the rules).
func DumpE12(p *Prog) {
	rep := NewReport("E12", p.Conf.String())
	all := func(*ssa.Function) bool { return true }
	p.e12MapWrites(rep, "E12a", all)
	p.e12Uses(rep, "E12b", all)
	tr := p.e12Tracked()
	var ks []string
	for fv, k := range tr {
		ks = append(ks, k+" "+p.e12().fields[fv].key)
	}
	sort.Strings(ks)
	for _, k := range ks {
		fmt.Println("TRACKED", k)
	}
	for fn, ex := range p.e12Flow().exit {
		if len(ex) > 0 {
			var ks []string
			for k := range ex {
				ks = append(ks, k)
			}
			sort.Strings(ks)
			fmt.Println("EXIT", p.FuncName(fn), ks)
		}
	}
	for g, cs := range p.e12Flow().companions {
		for _, c := range cs {
			fmt.Println("COMPANION", p.e12().fields[g].key, "speaks for", c.Name())
		}
	}
	for _, o := range rep.Obs {
		fmt.Printf("%-10s %s %s  %s  %s\n", o.Status, o.Rule, o.Key, o.Pos, o.Msg)
	}
}
