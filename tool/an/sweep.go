package an

import (
	"go/ast"
	"go/constant"
	"go/token"
	"go/types"
	"strings"

	"golang.org/x/tools/go/packages"
	"golang.org/x/tools/go/ssa"
)

// A sweep is a loop whose meaning is "for every entry of this collection": closing every
// pipe, telling every context that its pipe is gone, applying an option to every endpoint.
// Leaving such a loop early (break, return, goto, continue to an outer label) is invisible
// with one entry — the case the tests exercise — and drops the remaining entries otherwise.
// The check is on the syntax tree: a range statement in the anchor function whose collection
// has the declared type (local snapshots of a field have the field's type, so the loop over
// the snapshot is found as well) contains no statement that leaves it.

func (p *Prog) pkgOf(fn *ssa.Function) *packages.Package {
	if fn == nil || fn.Pkg == nil {
		return nil
	}
	for _, pk := range p.Pkgs {
		if pk.Types == fn.Pkg.Pkg {
			return pk
		}
	}
	return nil
}

// relTypeString renders a type relative to its own package ("map[*context]struct{}").
func relTypeString(t types.Type, pkg *types.Package) string {
	return types.TypeString(t, func(q *types.Package) string {
		if q == pkg {
			return ""
		}
		return q.Name()
	})
}

// loopExits lists the statements inside body that leave the loop labelled lbl ("" if none).
func loopExits(body *ast.BlockStmt, lbl string) []ast.Node {
	var out []ast.Node
	var walk func(n ast.Node, inBreakable, inLoop bool)
	walk = func(n ast.Node, inBreakable, inLoop bool) {
		switch x := n.(type) {
		case nil:
			return
		case *ast.FuncLit:
			return
		case *ast.ReturnStmt:
			out = append(out, x)
			return
		case *ast.BranchStmt:
			switch x.Tok {
			case token.BREAK:
				if x.Label != nil {
					if x.Label.Name == lbl {
						out = append(out, x)
					} else if !labelInside(body, x.Label.Name) {
						out = append(out, x)
					}
				} else if !inBreakable {
					out = append(out, x)
				}
			case token.CONTINUE:
				if x.Label != nil && x.Label.Name != lbl && !labelInside(body, x.Label.Name) {
					out = append(out, x)
				}
			case token.GOTO:
				if x.Label != nil && !labelInside(body, x.Label.Name) {
					out = append(out, x)
				}
			}
			return
		case *ast.ForStmt:
			walk(x.Body, true, true)
			return
		case *ast.RangeStmt:
			walk(x.Body, true, true)
			return
		case *ast.SwitchStmt:
			walk(x.Body, true, inLoop)
			return
		case *ast.TypeSwitchStmt:
			walk(x.Body, true, inLoop)
			return
		case *ast.SelectStmt:
			walk(x.Body, true, inLoop)
			return
		}
		ast.Inspect(n, func(c ast.Node) bool {
			if c == n {
				return true
			}
			if c == nil {
				return false
			}
			walk(c, inBreakable, inLoop)
			return false
		})
	}
	walk(body, false, false)
	return out
}

func labelInside(body *ast.BlockStmt, name string) bool {
	found := false
	ast.Inspect(body, func(n ast.Node) bool {
		if l, ok := n.(*ast.LabeledStmt); ok && l.Label.Name == name {
			found = true
		}
		return !found
	})
	return found
}

type sweepLoop struct {
	at    ast.Stmt
	typ   string
	exits []ast.Node
}

// rangeLoops lists the range statements of fn (not of closures inside it) with the type of
// the collection and the statements leaving each.
func (p *Prog) rangeLoops(fn *ssa.Function) []sweepLoop {
	pk := p.pkgOf(fn)
	if pk == nil || fn.Syntax() == nil {
		return nil
	}
	var body *ast.BlockStmt
	switch x := fn.Syntax().(type) {
	case *ast.FuncDecl:
		body = x.Body
	case *ast.FuncLit:
		body = x.Body
	}
	if body == nil {
		return nil
	}
	var out []sweepLoop
	labels := map[ast.Stmt]string{}
	ast.Inspect(body, func(n ast.Node) bool {
		if l, ok := n.(*ast.LabeledStmt); ok {
			labels[l.Stmt] = l.Label.Name
		}
		return true
	})
	ast.Inspect(body, func(n ast.Node) bool {
		if _, ok := n.(*ast.FuncLit); ok {
			return false
		}
		switch rs := n.(type) {
		case *ast.RangeStmt:
			if t := pk.TypesInfo.TypeOf(rs.X); t != nil {
				out = append(out, sweepLoop{at: rs, typ: relTypeString(t, pk.Types), exits: loopExits(rs.Body, labels[rs])})
			}
		case *ast.ForStmt:
			// the index form: for i := 0; i < len(X); i++
			if rs.Cond == nil {
				return true
			}
			ast.Inspect(rs.Cond, func(c ast.Node) bool {
				if call, ok := c.(*ast.CallExpr); ok && len(call.Args) == 1 {
					if id, ok := call.Fun.(*ast.Ident); ok && id.Name == "len" {
						if t := pk.TypesInfo.TypeOf(call.Args[0]); t != nil {
							out = append(out, sweepLoop{at: rs, typ: relTypeString(t, pk.Types), exits: loopExits(rs.Body, labels[rs])})
						}
					}
				}
				return true
			})
		}
		return true
	})
	return out
}

// sweepComplete: fn has at least `min` range loops over a collection of type collType and none
// of them can be left early.
func sweepComplete(p *Prog, r *Report, R, key string, fn *ssa.Function, collType string, min int, what, harm string) {
	if fn == nil {
		r.Bad(R, key+"/sweep-exists", "-", "ANCHOR-MISSING: function not found")
		return
	}
	n := 0
	var bad []string
	pos := p.Pos(fn.Pos())
	seen := map[*ssa.Function]bool{}
	var scan func(f *ssa.Function, d int)
	scan = func(f *ssa.Function, d int) {
		if seen[f] {
			return
		}
		seen[f] = true
		for _, l := range p.rangeLoops(f) {
			if l.typ != collType {
				continue
			}
			n++
			pos = p.Pos(l.at.Pos())
			for _, e := range l.exits {
				bad = append(bad, p.Pos(e.Pos()))
			}
		}
		if d >= 2 {
			return
		}
		// a sweep moved into a private helper (or a closure run in place) is the same sweep
		EachInstr(f, func(in ssa.Instruction) {
			if _, isGo := in.(*ssa.Go); isGo {
				return
			}
			if c := CallOf(in); c != nil {
				if sc := c.StaticCallee(); sc != nil && sc.Blocks != nil && sc.Pkg == f.Pkg && !ast.IsExported(sc.Name()) {
					scan(sc, d+1)
				}
			}
			if mc, ok := in.(*ssa.MakeClosure); ok {
				if cf, ok := mc.Fn.(*ssa.Function); ok && p.wrapped[cf] {
					scan(cf, d+1)
				}
			}
		})
	}
	scan(fn, 0)
	if n < min {
		r.Bad(R, key+"/sweep-exists", p.Pos(fn.Pos()), "ANCHOR-MISSING: no `range` loop over a "+collType+" in "+p.FuncName(fn))
		return
	}
	r.Check(len(bad) == 0, R, key+"/visits-every-entry", pos, "the loop over "+what+" cannot be left early: every entry is handled", "the loop over "+what+" can be left early (at "+strings.Join(bad, ", ")+"): "+harm)
}

type sweepSpec struct {
	rel, recv, fn, typ string
	what, harm         string
}

func runSweeps(p *Prog, r *Report, R, desc string, specs []sweepSpec) {
	r.Describe(R, desc)
	for _, s := range specs {
		if s.rel == "transport/ipc" && p.Conf.GOOS == "windows" {
			continue
		}
		key := s.rel + "." + s.recv + "." + s.fn + "/" + s.typ
		sweepComplete(p, r, R, key, p.Func(s.rel, s.recv, s.fn), s.typ, 1, s.what, s.harm)
	}
}

var closeSweeps = []sweepSpec{
	{"internal/core", "pipeList", "CloseAll", "map[uint32]*pipe", "the socket's pipes", "the pipes after it are never closed: their goroutines, ids and connections outlive the socket"},
	{"internal/core", "socket", "Close", "[]*listener", "the socket's listeners", "the listeners after it stay bound and keep accepting"},
	{"internal/core", "socket", "Close", "[]*dialer", "the socket's dialers", "the dialers after it keep redialling for ever"},
	{"protocol/rep", "socket", "Close", "map[*context]struct{}", "the open contexts", "the contexts after it are never closed: their blocked calls never return"},
	{"protocol/rep", "socket", "Close", "[]*context", "the open contexts", "the contexts after it are never closed: their blocked calls never return"},
	{"protocol/req", "socket", "Close", "map[*context]struct{}", "the open contexts", "the contexts after it are never closed: their blocked calls never return"},
	{"protocol/respondent", "socket", "Close", "map[*context]struct{}", "the open contexts", "the contexts after it are never closed: their blocked calls never return"},
	{"protocol/sub", "socket", "Close", "map[*context]struct{}", "the open contexts", "the contexts after it are never closed: their blocked calls never return"},
	{"protocol/sub", "socket", "Close", "[]*context", "the open contexts", "the contexts after it are never closed: their blocked calls never return"},
	{"protocol/surveyor", "socket", "Close", "map[*context]struct{}", "the open contexts", "the contexts after it are never closed: their blocked calls never return"},
	{"transport", "connHandshaker", "Close", "map[connHandshakerPipe]bool", "the connections still handshaking", "the connections after it stay open with a goroutine blocked on each"},
	{"transport", "connHandshaker", "Close", "[]*connHandshakerItem", "the connections waiting to be accepted", "the connections after it are never closed"},
	{"transport/inproc", "listener", "Close", "[]*inproc", "the blocked accepters", "the accepters after it stay blocked in Accept for ever"},
	{"transport/ws", "listener", "Close", "[]*wsPipe", "the connections waiting to be accepted", "the connections after it are never closed"},
}

var reqPipeLossSweep = []sweepSpec{
	{"protocol/req", "socket", "RemovePipe", "map[*context]struct{}", "the contexts whose request rode the lost pipe", "the requests of the contexts after it are neither re-sent nor cancelled: they wait for a reply that cannot come until their own retry timer, or for ever with retries disabled"},
}

var optionSweeps = []sweepSpec{
	{"internal/core", "socket", "SetOption", "[]*dialer", "the socket's dialers", "the dialers after it keep the old value"},
	{"internal/core", "socket", "SetOption", "[]*listener", "the socket's listeners", "the listeners after it keep the old value"},
}

var surveySweeps = []sweepSpec{
	{"protocol/surveyor", "context", "SendMsg", "map[uint32]*pipe", "the connected respondents (snapshot)", "respondents after it never get the survey"},
	{"protocol/surveyor", "context", "SendMsg", "[]*pipe", "the connected respondents", "respondents after it never get the survey"},
}

// limitBeforeStart: a stream transport hands a new connection to the handshaker only after the
// endpoint's receive limit has been applied to it.  Start runs the handshake on another
// goroutine, after which the pipe is attached and read from: a limit applied after Start
// races with the first frames (which are then judged with no limit at all), and is an
// unsynchronised write besides.
func limitBeforeStart(p *Prog, r *Report, R string) {
	r.Describe(R, "every connection is given the endpoint's receive limit before it is handed to the handshaker (Start): the first frame is already judged by it")
	n := 0
	check := func(fn *ssa.Function, v ssa.Value, at ssa.Instruction) {
		n++
		ok := p.setsLimitOn(v, at, 0)
		r.Check(ok, R, p.FuncName(fn)+"/start", p.InstrPos(at), "the receive limit is applied before Start", "the connection is handed to the handshaker before the endpoint's receive limit is applied to it: it can be attached and its first frames read with no limit (an oversize frame is allocated and delivered), and the late SetOption races with the receiver")
	}
	for _, fn := range p.Funcs {
		rel, ok := Rel(fn.Pkg.Pkg.Path())
		if !ok || !strings.HasPrefix(rel, "transport/") || strings.HasSuffix(p.Fset.Position(fn.Pos()).Filename, "_test.go") {
			continue
		}
		EachInstr(fn, func(in ssa.Instruction) {
			c := CallOf(in)
			if c == nil || CalleeName(c) != "Handshaker.Start" || len(c.Args) < 1 {
				return
			}
			v := stripConv(c.Args[len(c.Args)-1])
			if par, isPar := v.(*ssa.Parameter); isPar && fn.Parent() == nil && lowerName(fn.Name()) {
				// a private helper given the pipe: judged where it is called
				idx := -1
				for k, q := range fn.Params {
					if q == par {
						idx = k
					}
				}
				node := p.CG().Nodes[fn]
				sites := 0
				if node != nil && idx >= 0 {
					for _, e := range node.In {
						if e.Site == nil || e.Site.Common().StaticCallee() != fn || idx >= len(e.Site.Common().Args) {
							continue
						}
						sites++
						check(e.Caller.Func, e.Site.Common().Args[idx], e.Site)
					}
				}
				if sites > 0 {
					return
				}
			}
			check(fn, v, in)
		})
	}
	r.Count("transport.handshake_starts", n)
}

func stripConv(v ssa.Value) ssa.Value {
	for {
		switch x := v.(type) {
		case *ssa.ChangeInterface:
			v = x.X
		case *ssa.MakeInterface:
			v = x.X
		case *ssa.ChangeType:
			v = x.X
		case *ssa.TypeAssert:
			v = x.X
		default:
			return v
		}
	}
}

func constStringIs(v ssa.Value, s string) bool {
	c, ok := stripConv(v).(*ssa.Const)
	return ok && c.Value != nil && c.Value.Kind() == constant.String && constant.StringVal(c.Value) == s
}

// setsLimitOn: on every path to `at`, the receive limit has been applied to the pipe v:
// by SetOption(MAX-RCV-SIZE) on it, by a helper that does so to its parameter on all its
// paths, or because v is the result of a helper that returns only configured pipes.
func (p *Prog) setsLimitOn(v ssa.Value, at ssa.Instruction, depth int) bool {
	if depth > 3 {
		return false
	}
	v = stripConv(v)
	fn := at.Parent()
	found := false
	EachInstr(fn, func(in ssa.Instruction) {
		if found || in == at || !InstrDominates(in, at) {
			return
		}
		c := CallOf(in)
		if c == nil {
			return
		}
		if _, isGo := in.(*ssa.Go); isGo {
			return
		}
		if c.IsInvoke() {
			if c.Method.Name() == "SetOption" && stripConv(c.Value) == v && len(c.Args) >= 1 && constStringIs(c.Args[0], "MAX-RCV-SIZE") {
				found = true
			}
			return
		}
		sc := c.StaticCallee()
		if sc == nil || sc.Blocks == nil || !p.moduleFunc(sc) {
			return
		}
		if sc.Name() == "SetOption" && len(c.Args) >= 2 && stripConv(c.Args[0]) == v && constStringIs(c.Args[1], "MAX-RCV-SIZE") {
			found = true
			return
		}
		for k, a := range c.Args {
			if stripConv(a) == v && k < len(sc.Params) && p.onAllReturns(sc, func(ret *ssa.Return) bool { return p.setsLimitOn(sc.Params[k], ret, depth+1) }) {
				found = true
			}
		}
	})
	if found {
		return true
	}
	// v is what a helper returned
	if call, ok := v.(*ssa.Call); ok {
		if sc := call.Call.StaticCallee(); sc != nil && sc.Blocks != nil && p.moduleFunc(sc) && sc.Pkg == fn.Pkg {
			return p.onAllReturns(sc, func(ret *ssa.Return) bool {
				return len(ret.Results) >= 1 && p.setsLimitOn(resolveSpill(ret.Results[0], ret), ret, depth+1)
			})
		}
	}
	return false
}

func (p *Prog) onAllReturns(fn *ssa.Function, pred func(*ssa.Return) bool) bool {
	ok, n := true, 0
	EachInstr(fn, func(in ssa.Instruction) {
		if ret, isRet := in.(*ssa.Return); isRet && in.Block() != fn.Recover {
			n++
			if !pred(ret) {
				ok = false
			}
		}
	})
	return ok && n > 0
}

// noGoroutineForRefusedPipe: a protocol's AddPipe starts the per-pipe goroutines only on the
// path on which it accepts the pipe.  The core calls RemovePipe (which is what stops those
// goroutines) only for pipes whose AddPipe returned nil: a goroutine started before AddPipe
// returns ErrClosed / ErrProtoState is never told to stop.
func noGoroutineForRefusedPipe(p *Prog, r *Report, R string) {
	r.Describe(R, "AddPipe of every protocol starts per-pipe goroutines only on the accepting path: no `go` statement is followed by an error return (the core never calls RemovePipe for a refused pipe, so nothing would stop them)")
	n := 0
	for _, fn := range p.Funcs {
		rel, _ := p.FuncRel(fn)
		if !strings.HasPrefix(rel, "protocol/") || fn.Name() != "AddPipe" || fn.Signature.Recv() == nil || strings.HasSuffix(p.Fset.Position(fn.Pos()).Filename, "_test.go") {
			continue
		}
		EachInstr(fn, func(in ssa.Instruction) {
			g, ok := in.(*ssa.Go)
			if !ok {
				return
			}
			n++
			bad := ""
			seen := map[*ssa.BasicBlock]bool{}
			var walk func(b *ssa.BasicBlock, i int)
			walk = func(b *ssa.BasicBlock, i int) {
				for ; i < len(b.Instrs); i++ {
					ret, isRet := b.Instrs[i].(*ssa.Return)
					if !isRet || b == fn.Recover {
						continue
					}
					for _, way := range returnWays(ret) {
						if c, isC := way.(*ssa.Const); !isC || c.Value != nil {
							bad = p.InstrPos(ret)
						}
					}
				}
				for _, s := range b.Succs {
					if !seen[s] {
						seen[s] = true
						walk(s, 0)
					}
				}
			}
			walk(g.Block(), instrIndex(g)+1)
			r.Check(bad == "", R, p.FuncName(fn)+"/go#"+CalleeName(&g.Call), p.InstrPos(g), "started only when the pipe is accepted", "the goroutine is started on a path on which AddPipe can still refuse the pipe (error return at "+bad+"): the core never calls RemovePipe for a refused pipe, so the goroutine is never told to stop and outlives the socket")
		})
	}
	r.Count("protocol.addpipe_goroutines", n)
}

// returnWays: the values a single-result return can carry (a merge split into its ways).
func returnWays(ret *ssa.Return) []ssa.Value {
	if len(ret.Results) == 0 {
		return nil
	}
	v := resolveSpill(ret.Results[len(ret.Results)-1], ret)
	var out []ssa.Value
	seen := map[ssa.Value]bool{}
	var rec func(v ssa.Value)
	rec = func(v ssa.Value) {
		if seen[v] {
			return
		}
		seen[v] = true
		switch x := v.(type) {
		case *ssa.Phi:
			for _, e := range x.Edges {
				rec(e)
			}
		case *ssa.MakeInterface:
			rec(x.X)
		case *ssa.ChangeInterface:
			rec(x.X)
		default:
			out = append(out, v)
		}
	}
	rec(v)
	return out
}
