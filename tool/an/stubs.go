package an

type postDom struct{}
