package an

import (
	"strings"

	"golang.org/x/tools/go/ssa"
)

func init() {
	register(&PropInfo{ID: "C14", Run: runC14,
		Explanation: "anchored shape rules on internal/core.dialer: no transport Dial once closed (check under the lock), Close stops the redial timer, the retry delay is the pre-growth reconnTime, growth only when a maximum is set and always followed by the clamp to the maximum, synchronous failures are returned without scheduling, pipeConnected/Dial reset the delay to the minimum, pipeClosed always schedules a redial, ErrClosed schedules nothing.",
		Assumptions: commonAssumptions})
}

const coreDialerMu = "internal/core.dialer.Mutex"

// loadBeforeStores: the value v is a load of its field executed before any store to the
// same access path in the function (v holds the "old" value).
func loadBeforeStores(fn *ssa.Function, v ssa.Value) bool {
	ld, ok := v.(*ssa.UnOp)
	if !ok {
		return false
	}
	d := Desc(ld.X)
	if ld.Parent() != nil && ld.Parent() != fn {
		fn = ld.Parent() // the load sits in a private helper the code moved into
	}
	reach := blockReach(fn)
	ok2 := true
	EachInstr(fn, func(in ssa.Instruction) {
		if st, isSt := in.(*ssa.Store); isSt && Desc(st.Addr) == d {
			if CanPrecede(reach, st, ld) {
				ok2 = false
			}
		}
	})
	return ok2
}

// allPathsPass: every path from instruction a to instruction b passes through via.
func allPathsPass(a, b, via ssa.Instruction) bool {
	// DFS from a (exclusive) avoiding via; if b reachable -> false
	seen := map[*ssa.BasicBlock]bool{}
	var walk func(blk *ssa.BasicBlock, i int) bool
	walk = func(blk *ssa.BasicBlock, i int) bool {
		for ; i < len(blk.Instrs); i++ {
			in := blk.Instrs[i]
			if in == via {
				return true
			}
			if in == b {
				return false
			}
		}
		for _, s := range blk.Succs {
			if seen[s] {
				continue
			}
			seen[s] = true
			if !walk(s, 0) {
				return false
			}
		}
		return true
	}
	return walk(a.Block(), instrIndex(a)+1)
}

func runC14(p *Prog, r *Report) {
	timerDiscipline(p, r, "C14.13/timer-discipline", func(rel string) bool { return rel == "internal/core" })
	r.Floor("C14.13/timer-discipline", "timer_fields.C14.13/timer-discipline", 1)
	condWakersComplete(p, r, "C14.8/wakers-complete", func(rel string) bool {
		return strings.HasPrefix(rel, "protocol/") || rel == "internal/core" || strings.HasPrefix(rel, "transport")
	})
	r.Floor("C14.8/wakers-complete", "e4c.list_growths_with_waiters", 3)
	q := NewQ(p, r)
	R := "C14.1/closed-stops"
	r.Describe(R, "dial never calls the transport once closed; Close stops the pending redial timer and sets closed")
	dl := q.Fn(R, "internal/core", "dialer", "dial")
	if dl.OK() {
		td := dl.Ev("call", "TranDialer.Dial")
		q.Req(R, "dial-guarded-by-not-closed", len(td) == 1 && td.AllGuarded("!recv.closed"), td.Pos(p), "transport Dial only when !closed", "the transport Dial() is not guarded by !d.closed: a closed dialer can still connect")
		// the closed test itself is made under the lock: the If reading recv.closed
		okLock := false
		for _, b := range dl.fn.Blocks {
			if iff, ok := b.Instrs[len(b.Instrs)-1].(*ssa.If); ok && Desc(iff.Cond) == "recv.closed" {
				for _, h := range p.mutexesHeld(dl.fn, iff) {
					if h == coreDialerMu {
						okLock = true
					}
				}
			}
		}
		q.Req(R, "closed-tested-under-lock", okLock, dl.Pos(), "closed is tested under the dialer lock", "the closed test in dial is not made under the dialer lock")
		rc := dl.Ev("return", "").Guarded("recv.closed")
		q.Req(R, "closed-returns-ErrClosed", len(rc) == 1 && len(rc[0].Args) == 1 && rc[0].Args[0] == "ErrClosed", rc.Pos(p), "returns ErrClosed", "dial on a closed dialer does not return ErrClosed")
	}
	cl := q.Fn(R, "internal/core", "dialer", "Close")
	if cl.OK() {
		stp := cl.Ev("call", "time.(*Timer).Stop").Arg(0, "recv.redialer")
		q.Req(R, "close-stops-redialer", len(stp) == 1 && stp.AllGuarded("recv.redialer != nil") && stp.AllGuarded("!recv.closed") && stp.AllHeld(coreDialerMu), stp.Pos(p), "redialer stopped under the lock", "Close does not stop the pending redial timer (under the lock, when set)")
		sc := cl.Ev("store", "recv.closed").Arg(0, "true")
		q.Req(R, "close-sets-closed", len(sc) == 1 && len(sc[0].Guard) == 1 && sc[0].Guard[0] == "!recv.closed" && sc.AllHeld(coreDialerMu), sc.Pos(p), "closed=true under the lock", "Close does not set closed=true unconditionally under the lock")
	}

	r.Describe("C14.6/ErrClosed-means-closed", "a transport reports ErrClosed from Dial/Accept only for its own closed state: core's redial loop stops for good on ErrClosed, so a vanished listener or failed attempt must surface as any other error")
	errClosedMeansClosed(p, r, "C14.6/ErrClosed-means-closed")

	R = "C14.2/backoff"
	r.Describe(R, "failed dial: delay = reconnTime before growth; growth only if reconnMaxTime != 0 and always clamped to it; only on the redial path; nothing scheduled for ErrClosed")
	if dl.OK() {
		af := dl.Ev("call", "time.AfterFunc")
		q.Req(R, "one-afterfunc", len(af) == 1, af.Pos(p), "one AfterFunc", "expected exactly one time.AfterFunc in dial")
		if len(af) == 1 {
			call := af[0].In.(*ssa.Call)
			delay := call.Call.Args[0]
			if sc, ok := af[0].Site.(ssa.CallInstruction); ok {
				// armed inside a private helper: the delay is what the caller passed
				if par, isPar := delay.(*ssa.Parameter); isPar {
					for k, q2 := range call.Parent().Params {
						if q2 == par && k < len(sc.Common().Args) {
							delay = sc.Common().Args[k]
						}
					}
				}
			}
			q.Req(R, "delay-is-old-reconnTime", af[0].Args[0] == "recv.reconnTime" && loadBeforeStores(dl.fn, delay), af.Pos(p),
				"delay argument is reconnTime read before any growth", "the redial delay is not the pre-growth reconnTime (first retry would not be ReconnectTime)")
			q.Req(R, "afterfunc-target-redial", strings.Contains(af[0].Args[1], "redial"), af.Pos(p), "callback is redial", "AfterFunc callback is not d.redial")
			// the whole decision "schedule another attempt", compared with its specification over
			// every combination of (asked to redial, asynchronous dialer, closed, outcome of
			// the attempt): however the function spells it (flags, merged conditions, early
			// returns), and an extra condition is as wrong as a missing one
			{
				const errD = "recv.d.Dial()#1"
				dom := map[string][]int64{"arg1": {0, 1}, "recv.asynch": {0, 1}, "recv.closed": {0, 1}, errD: {0, 1, 2}, "ErrClosed": {2}}
				res := ComparePred(predBlock(af[0]), dom, nil, func(env map[string]int64) bool {
					return (env["arg1"] != 0 || env["recv.asynch"] != 0) && env["recv.closed"] == 0 && env[errD] == 1
				})
				q.Req(R, "retry-decision-exact", res.OK && res.Undec == "", af.Pos(p), "a retry is scheduled exactly when (redial or asynch) and not closed and the attempt failed with something other than ErrClosed",
					"dial schedules a retry under the wrong condition (must be: (redial || asynch) && !closed && err != nil && err != ErrClosed): "+res.Counter+res.Undec)
			}
			q.Req(R, "under-lock", af.AllHeld(coreDialerMu), af.Pos(p), "under the dialer lock", "AfterFunc/redialer store not under the dialer lock")
			str := dl.Ev("store", "recv.redialer")
			q.Req(R, "timer-stored", len(str) == 1 && strings.HasPrefix(str[0].Args[0], "time.AfterFunc("), str.Pos(p), "timer kept in d.redialer (so Close can stop it)", "the retry timer is not stored in d.redialer")
			// growth
			var grow, clamp Sel
			for _, e := range dl.Ev("store", "recv.reconnTime") {
				if e.Args[0] == "recv.reconnMaxTime" {
					clamp = append(clamp, e)
				} else {
					grow = append(grow, e)
				}
			}
			q.Req(R, "growth-store", len(grow) == 1 && strings.Contains(grow[0].Args[0], "float64(recv.reconnTime)") && strings.Contains(grow[0].Args[0], "*"), grow.Pos(p),
				"reconnTime grows multiplicatively", "expected one multiplicative growth store to reconnTime")
			q.Req(R, "growth-only-with-max", grow.AllGuarded("recv.reconnMaxTime != 0"), grow.Pos(p), "growth only when a maximum is configured", "back-off grows although MaxReconnectTime is 0 (no cap configured => constant interval)")
			q.Req(R, "clamp-store", len(clamp) == 1 && clamp.AllGuarded("recv.reconnTime > recv.reconnMaxTime"), clamp.Pos(p),
				"reconnTime = reconnMaxTime when it exceeds it", "the clamp `if reconnTime > reconnMaxTime { reconnTime = reconnMaxTime }` is missing or has a different condition: the delay can exceed MaxReconnectTime")
			if len(grow) == 1 && len(clamp) == 1 {
				// the clamp comparison lies on every path from the growth to the next use
				var cmp ssa.Instruction
				// (growth, clamp and timer may have moved together into a private helper)
				home := dl.fn
				if grow[0].In.Parent() == af[0].In.Parent() {
					home = grow[0].In.Parent()
				}
				for _, b := range home.Blocks {
					if iff, ok := b.Instrs[len(b.Instrs)-1].(*ssa.If); ok && litEq(NormAtom(iff.Cond, true), "recv.reconnTime > recv.reconnMaxTime") {
						cmp = iff
					}
				}
				q.Req(R, "clamp-on-every-path", cmp != nil && allPathsPass(grow[0].In, af[0].In, cmp) && len(grow[0].Guard) == len(clamp[0].Guard)-1, clamp.Pos(p),
					"every path from the growth passes the clamp test", "some path from the growth of reconnTime skips the clamp test")
			}
			// every failed attempt returns the transport's error to the caller
			{
				const errD = "recv.d.Dial()#1"
				nf, bad := 0, ""
				for _, e := range dl.Ev("return", "") {
					if !hasAtom(e.Guard, errD+" != nil") || len(e.Args) != 1 {
						continue
					}
					nf++
					if e.Args[0] != errD {
						bad = p.InstrPos(e.In) + " returns " + e.Args[0]
					}
				}
				q.Req(R, "sync-failure-returned", nf >= 1 && bad == "", dl.Pos(), "a failed attempt returns the transport error (so a synchronous Dial reports it)", "a dial failure is not returned to the caller: "+bad)
			}
			// nothing is scheduled once the dialer has been closed
			q.Req(R, "no-timer-once-closed", len(af) == 1 && af.AllGuarded("!recv.closed") && closedReadInSameSection(p, dl.fn, af[0].At()), af.Pos(p), "the redial timer is armed only under !closed, tested in the critical section that arms it", "the redial timer can be armed on a dialer that was closed while the connection attempt was in flight (closed is not re-tested in the critical section that arms the timer)")
		}
	}

	R = "C14.4/reset"
	r.Describe(R, "the delay returns to ReconnectTime after a successful attach (pipeConnected) and at Dial()")
	for _, nm := range []string{"pipeConnected", "Dial"} {
		f := q.Fn(R, "internal/core", "dialer", nm)
		if f.OK() {
			st := f.Ev("store", "recv.reconnTime").Arg(0, "recv.reconnMinTime")
			q.Req(R, nm+"-resets", len(st) == 1 && st.AllHeld(coreDialerMu), st.Pos(p), "reconnTime = reconnMinTime under the lock", nm+" does not reset reconnTime to reconnMinTime under the lock")
		}
	}
	if ap := q.Fn(R, "internal/core", "socket", "addPipe"); ap.OK() {
		var pcs Sel
		for _, k := range []string{"go", "call", "defer"} {
			pcs = append(pcs, ap.AllEv(k, "core.(*dialer).pipeConnected")...)
		}
		st := ap.Ev("store", "*.added").Arg(0, "true")
		ok := len(pcs) == 1 && pcs[0].Kind != "defer" && pcs[0].Fn == ap.fn && len(st) == 1 && InstrDominates(st[0].In, pcs[0].In)
		r.Check(ok, R, "reset-only-after-attach", pcs.Pos(p), "pipeConnected (which resets the delay) runs only after the pipe was attached (added = true)", "the redial delay is reset for a connection that never attached (refused by the protocol or closed while attaching): the back-off collapses to ReconnectTime although no pipe ever came up: "+argsOf(pcs))
	}
	if ap := q.Fn(R, "internal/core", "socket", "addPipe"); ap.OK() {
		// ... and after every attach of a dialed pipe: the call depends on nothing but the
		// outcome of the attach and the pipe having a dialer
		var pcs Sel
		for _, k := range []string{"go", "call"} {
			pcs = append(pcs, ap.AllEv(k, "core.(*dialer).pipeConnected")...)
		}
		var extra []string
		for _, e := range pcs {
			for _, g := range e.Guard {
				if strings.Contains(g, ".closing") || strings.Contains(g, "AddPipe(") || strings.HasSuffix(g, ".d != nil") || strings.HasSuffix(g, ".d == nil") {
					continue
				}
				extra = append(extra, g)
			}
		}
		r.Check(len(pcs) >= 1 && len(extra) == 0, R, "reset-after-every-attach", pcs.Pos(p), "the dialer is told of every successful attach of a pipe it dialed (the call depends only on the attach having succeeded and on the pipe having a dialer)", "the dialer is told of a successful attach only under a further condition ("+strings.Join(extra, ", ")+"): where it does not hold the delay grown during an outage is never reset, and every later reconnect waits the maximum")
	}
	pc := q.Fn(R, "internal/core", "dialer", "pipeConnected")
	if pc.OK() {
		st := pc.Ev("store", "recv.reconnTime")
		q.Req(R, "pipeConnected-unconditional", len(st) == 1 && st[0].Unconditional(), st.Pos(p), "unconditional", "pipeConnected resets conditionally")
	}

	R = "C14.5/redial-after-loss"
	r.Describe(R, "pipeClosed always schedules a redial after the current delay; redial re-enters dial(true); Dial starts the first attempt")
	pcl := q.Fn(R, "internal/core", "dialer", "pipeClosed")
	if pcl.OK() {
		af := pcl.Ev("call", "time.AfterFunc")
		q.Req(R, "pipeClosed-schedules", len(af) == 1 && len(af[0].Guard) == 1 && af[0].Guard[0] == "!recv.closed" && af[0].Args[0] == "recv.reconnTime" && strings.Contains(af[0].Args[1], "redial") && af.AllHeld(coreDialerMu), af.Pos(p),
			"AfterFunc(reconnTime, redial) whenever the dialer is not closed, under the lock", "pipeClosed does not schedule a redial after reconnTime exactly when the dialer is still open: "+guardsOf(af))
		st := pcl.Ev("store", "recv.redialer")
		q.Req(R, "pipeClosed-timer-tracked", len(st) == 1 && strings.HasPrefix(st[0].Args[0], "time.AfterFunc("), st.Pos(p), "the timer is kept in redialer so that Close can stop it", "the redial timer armed by pipeClosed is not kept where Close can stop it")
	}
	dialerToldOfEveryClose(p, r, R)
	rd := q.Fn(R, "internal/core", "dialer", "redial")
	if rd.OK() {
		c := rd.Ev("call", "core.(*dialer).dial").Arg(1, "true")
		q.Req(R, "redial-calls-dial-true", len(c) == 1 && c[0].Unconditional(), c.Pos(p), "dial(true)", "redial does not call dial(true)")
	}
	dd := q.Fn(R, "internal/core", "dialer", "Dial")
	if dd.OK() {
		g := dd.Ev("go", "core.(*dialer).redial")
		q.Req(R, "Dial-asynch-spawns-redial", len(g) == 1 && g.AllGuarded("recv.asynch") && g.AllGuarded("!recv.closed") && g.AllGuarded("!recv.active"), g.Pos(p), "asynchronous Dial spawns redial", "Dial(asynch) does not spawn the redial goroutine under !active && !closed && asynch")
		c := dd.Ev("call", "core.(*dialer).dial").Arg(1, "false")
		q.Req(R, "Dial-sync-calls-dial-false", len(c) == 1 && c.AllGuarded("!recv.asynch"), c.Pos(p), "synchronous Dial calls dial(false)", "synchronous Dial does not call dial(false)")
	}
}

// dialerToldOfEveryClose: every way a dialed pipe goes away reaches dialer.pipeClosed:
// pipe.Close's once-closure notifies the dialer unconditionally (when p.d != nil), and a
// pipe refused by the protocol is closed through that same core Close.
func dialerToldOfEveryClose(p *Prog, r *Report, R string) {
	q := NewQ(p, r)
	pc := q.Fn(R, "internal/core", "pipe", "Close")
	if pc.OK() {
		cl := pc.Closure(R, 0)
		if cl.OK() {
			gpc := cl.Ev("go", "core.(*dialer).pipeClosed")
			q.Req(R, "pipe.Close-notifies-dialer", len(gpc) == 1 && len(gpc[0].Guard) == 1 && gpc[0].Guard[0] == "recv.d != nil", gpc.Pos(p),
				"go p.d.pipeClosed() on every path when p.d != nil", "pipe.Close does not notify the dialer on every path: "+guardsOf(gpc))
		}
	}
	ap := q.Fn(R, "internal/core", "socket", "addPipe")
	if ap.OK() {
		gocl := ap.Ev("go", "core.(*pipe).close")
		ok := len(gocl) == 1
		if ok {
			ok = false
			for _, g := range gocl[0].Guard {
				if strings.Contains(g, ".AddPipe(") && strings.HasSuffix(g, "!= nil") {
					ok = true
				}
			}
		}
		q.Req(R, "refused-pipe-closed-through-core", ok, gocl.Pos(p), "a pipe refused by the protocol is closed through core pipe.close (which tells the dialer)",
			"a pipe refused by the protocol is not closed through (*pipe).close: its dialer is never told and never redials")
	}
	cp := q.Fn(R, "internal/core", "pipe", "close")
	if cp.OK() {
		c := cp.Ev("call", "core.(*pipe).Close")
		q.Req(R, "close-calls-Close", len(c) == 1 && c[0].Unconditional(), c.Pos(p), "close() calls Close()", "(*pipe).close no longer calls Close")
	}
}

// edgeAtomsOf: for a block entered only from conditional branches, the atom of each edge.
func edgeAtomsOf(b *ssa.BasicBlock) []string {
	var out []string
	for _, pb := range b.Preds {
		iff, ok := pb.Instrs[len(pb.Instrs)-1].(*ssa.If)
		if !ok {
			return nil
		}
		out = append(out, NormAtom(iff.Cond, pb.Succs[0] == b))
	}
	return out
}

// closedReadInSameSection: some If on recv.closed is evaluated under the same lock
// acquisition as instruction at.
func closedReadInSameSection(p *Prog, fn *ssa.Function, at ssa.Instruction) bool {
	for _, b := range fn.Blocks {
		iff, ok := b.Instrs[len(b.Instrs)-1].(*ssa.If)
		if !ok || Desc(iff.Cond) != "recv.closed" {
			continue
		}
		for _, h1 := range p.E1().held[iff] {
			for _, h2 := range p.E1().held[at] {
				if h1.At == h2.At {
					return true
				}
			}
		}
	}
	return false
}
