package main

import (
	_ "golang.org/x/tools/go/callgraph/vta"
	_ "golang.org/x/tools/go/cfg"
	_ "golang.org/x/tools/go/packages"
	_ "golang.org/x/tools/go/ssa/ssautil"
)

func main() {}
