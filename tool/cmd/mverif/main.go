// mverif: static verifier for the mangos properties C01..C20.
//
//	mverif check <Cxx> [--tier quick|thorough] [--repo DIR] [--verif DIR]
//	mverif explain <report.json>
//	mverif one <Cxx> --config goos/goarch/cgoN [--overlay file=replacement]... --out FILE   (internal)
//	mverif list
package main

import (
	"path/filepath"
	"encoding/json"
	"fmt"
	"os"
	"os/exec"
	"runtime/debug"
	"strconv"
	"strings"
	"sync"
	"time"

	"mverif/an"
)

func usage() {
	fmt.Fprintln(os.Stderr, "usage: mverif check <Cxx> [--tier quick|thorough] | explain <report.json> | list | selftest | mutants <Cxx|all>")
	os.Exit(2)
}

type opts struct {
	tier     string
	repo     string
	verif    string
	config   string
	out      string
	overlays []string
	args     []string
}

func parse(args []string) opts {
	o := opts{tier: os.Getenv("VERIF_TIER"), repo: "/repo", verif: "/verif"}
	if o.tier == "" {
		o.tier = "quick"
	}
	for i := 0; i < len(args); i++ {
		a := args[i]
		next := func() string {
			i++
			if i >= len(args) {
				usage()
			}
			return args[i]
		}
		switch a {
		case "--tier":
			o.tier = next()
		case "--repo":
			o.repo = next()
		case "--verif":
			o.verif = next()
		case "--config":
			o.config = next()
		case "--out":
			o.out = next()
		case "--overlay":
			o.overlays = append(o.overlays, next())
		default:
			o.args = append(o.args, a)
		}
	}
	return o
}

func parseConfig(s, repo string) an.Config {
	c := an.Config{Dir: repo, GOOS: "linux", GOARCH: "amd64"}
	parts := strings.Split(s, "/")
	if len(parts) >= 1 && parts[0] != "" {
		c.GOOS = parts[0]
	}
	if len(parts) >= 2 {
		c.GOARCH = parts[1]
	}
	if len(parts) >= 3 {
		c.Cgo = parts[2] == "cgo1"
	}
	return c
}

// runOne loads one configuration and evaluates one property; never panics outward.
func runOne(prop string, conf an.Config) (rep *an.Report) {
	rep = an.NewReport(prop, conf.String())
	defer func() {
		if e := recover(); e != nil {
			rep.Unk("analyser", "panic", "-", fmt.Sprintf("analyser panic: %v", e), strings.Split(string(debug.Stack()), "\n")[:12]...)
		}
	}()
	pi := an.Lookup(prop)
	if pi == nil {
		rep.Unk("analyser", "unknown-property", "-", "no check registered for "+prop)
		return
	}
	p, err := an.Load(conf)
	if err != nil {
		rep.Unk("analyser", "load", "-", err.Error())
		return
	}
	rep.Count("load.module_packages", len(p.Pkgs))
	rep.Count("load.in_scope_functions", len(p.Funcs))
	pi.Run(p, rep)
	an.ApplyImports(p, rep)
	return
}

var thoroughConfigs = []string{
	"linux/amd64/cgo0", "linux/386/cgo0", "windows/amd64/cgo0", "darwin/amd64/cgo0",
	"freebsd/amd64/cgo0", "solaris/amd64/cgo0",
}

func main() {
	if len(os.Args) < 2 {
		usage()
	}
	cmd := os.Args[1]
	o := parse(os.Args[2:])
	an.KnownPath = filepath.Join(o.verif, "known_findings.json")
	switch cmd {
	case "dump-fn":
		// dump-fn <rel-pkg> <recv|-> <name>
		p, err := an.Load(parseConfig(o.config, o.repo))
		if err != nil {
			fmt.Println(err)
			os.Exit(1)
		}
		for i := 0; i+2 < len(o.args); i += 3 {
			recv := o.args[i+1]
			if recv == "-" {
				recv = ""
			}
			fn := p.Func(o.args[i], recv, o.args[i+2])
			if fn == nil {
				fmt.Println("not found:", o.args[i:i+3])
				continue
			}
			p.DumpFn(fn)
		}
	case "dump-loops":
		p, err := an.Load(parseConfig(o.config, o.repo))
		if err != nil {
			fmt.Println(err)
			os.Exit(1)
		}
		an.DumpLoops(p)
	case "dump-e3":
		p, err := an.Load(parseConfig(o.config, o.repo))
		if err != nil {
			fmt.Println(err)
			os.Exit(1)
		}
		an.DumpE3(p)
	case "dump-e12":
		p, err := an.Load(parseConfig(o.config, o.repo))
		if err != nil {
			fmt.Println(err)
			os.Exit(1)
		}
		an.DumpE12(p)
		an.DumpE13(p)
	case "list":
		for _, id := range an.AllProps() {
			fmt.Println(id)
		}
	case "one":
		// internal: evaluate one property on one configuration and dump the report
		if len(o.args) != 1 || o.out == "" {
			usage()
		}
		conf := parseConfig(o.config, o.repo)
		if len(o.overlays) > 0 {
			conf.Overlay = map[string][]byte{}
			for _, ov := range o.overlays {
				kv := strings.SplitN(ov, "=", 2)
				b, err := os.ReadFile(kv[1])
				if err != nil {
					fmt.Fprintln(os.Stderr, err)
					os.Exit(2)
				}
				conf.Overlay[kv[0]] = b
			}
		}
		rep := runOne(o.args[0], conf)
		b, _ := json.Marshal(rep)
		if err := os.WriteFile(o.out, b, 0o644); err != nil {
			fmt.Fprintln(os.Stderr, err)
			os.Exit(2)
		}
	case "check":
		if len(o.args) != 1 {
			usage()
		}
		os.Exit(check(o.args[0], o))
	case "explain":
		if len(o.args) != 1 {
			usage()
		}
		os.Exit(explain(o.args[0], o))
	case "mech":
		// internal: apply a mechanical behaviour-preserving rewrite in place to a scratch
		// worktree (--repo, never /repo itself)
		if len(o.args) != 1 || o.repo == "/repo" {
			usage()
		}
		n, err := an.MechRefactor(o.args[0], o.repo)
		fmt.Printf("%s: %d rewrites\n", o.args[0], n)
		if err != nil {
			fmt.Println(err)
			os.Exit(1)
		}
	case "selftest":
		os.Exit(an.SelfTest(o.verif))
	case "mutants":
		if len(o.args) != 1 {
			usage()
		}
		res := an.RunMutants(o.verif, o.repo, o.args[0], selfExe())
		b, _ := json.MarshalIndent(res, "", " ")
		fmt.Println(string(b))
		if res.Missed > 0 {
			os.Exit(1)
		}
	default:
		usage()
	}
}

func selfExe() string {
	e, err := os.Executable()
	if err != nil {
		return os.Args[0]
	}
	return e
}

func check(prop string, o opts) int {
	start := time.Now()
	seed, _ := strconv.Atoi(os.Getenv("VERIF_SEED"))
	pi := an.Lookup(prop)
	if pi == nil {
		fmt.Printf("VIOLATION property=%s replay=-\n  no check registered\n", prop)
		return 1
	}
	var reps []*an.Report
	extra := map[string]interface{}{}
	if o.tier != "thorough" {
		reps = append(reps, runOne(prop, parseConfig("linux/amd64/cgo0", o.repo)))
	} else {
		// one subprocess per configuration (bounded memory), in parallel
		reps = make([]*an.Report, len(thoroughConfigs))
		var wg sync.WaitGroup
		sem := make(chan struct{}, 6)
		tmp, err := os.MkdirTemp("", "mverif-")
		if err != nil {
			fmt.Printf("VIOLATION property=%s replay=-\n  %v\n", prop, err)
			return 1
		}
		defer os.RemoveAll(tmp)
		for i, c := range thoroughConfigs {
			wg.Add(1)
			go func(i int, c string) {
				defer wg.Done()
				sem <- struct{}{}
				defer func() { <-sem }()
				out := fmt.Sprintf("%s/%d.json", tmp, i)
				cmd := exec.Command(selfExe(), "one", prop, "--config", c, "--repo", o.repo, "--verif", o.verif, "--out", out)
				cmd.Stderr = os.Stderr
				rep := an.NewReport(prop, c)
				if err := cmd.Run(); err != nil {
					rep.Unk("analyser", "subprocess", "-", fmt.Sprintf("config %s: %v", c, err))
				} else if b, err := os.ReadFile(out); err != nil {
					rep.Unk("analyser", "subprocess", "-", err.Error())
				} else if err := json.Unmarshal(b, rep); err != nil {
					rep.Unk("analyser", "subprocess", "-", err.Error())
				}
				reps[i] = rep
			}(i, c)
		}
		wg.Wait()
		// sensitivity: self-test corpus and overlay mutants (evidence only)
		st := an.SelfTestSummary(o.verif)
		extra["selftest"] = st
		if !st.OK {
			r := an.NewReport(prop, "selftest")
			r.Bad("analyser", "selftest", "-", "engine self-test corpus failed: "+strings.Join(st.Failures, "; "))
			reps = append(reps, r)
		}
		mr := an.RunMutants(o.verif, o.repo, prop, selfExe())
		extra["mutants"] = mr
	}
	return an.Finish(o.verif, prop, o.tier, seed, reps, extra, pi.Assumptions, time.Since(start).Seconds(), pi.Explanation)
}

// explain re-evaluates the obligation recorded in a replay file on the current tree.
func explain(path string, o opts) int {
	b, err := os.ReadFile(path)
	if err != nil {
		fmt.Fprintln(os.Stderr, err)
		return 2
	}
	var ob an.Ob
	if err := json.Unmarshal(b, &ob); err != nil {
		fmt.Fprintln(os.Stderr, err)
		return 2
	}
	conf := parseConfig(ob.Config, o.repo)
	rep := runOne(ob.Prop, conf)
	for _, x := range rep.Obs {
		if x.Rule == ob.Rule && x.Key == ob.Key {
			fmt.Printf("%s %s %s\n  status now: %s\n  at: %s\n  %s\n", x.Prop, x.Rule, x.Key, x.Status, x.Pos, x.Msg)
			for _, w := range x.Witness {
				fmt.Println("     ", w)
			}
			if x.Status != an.Discharged {
				return 1
			}
			return 0
		}
	}
	fmt.Printf("%s %s %s: obligation no longer produced on the current tree (recorded: %s at %s: %s)\n", ob.Prop, ob.Rule, ob.Key, ob.Status, ob.Pos, ob.Msg)
	return 0
}
